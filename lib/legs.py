"""Which legs (monitor runs, sanitizer runs, feature builds, ...) make up each check."""
import os
import json
import subprocess
import shutil

FEATURE_LEG_PROPS = ["C01", "C02", "C03", "C04", "C05", "C06", "C07", "C09", "C10", "C11", "C13", "C14"]

FEATURE_SETS = []
for counting in ([], ["adhoccounting"], ["adhoccounting", "adhoccountmodels"]):
    for vl in ([], ["variablelist"]):
        for fe in ([], ["frontend"]):
            FEATURE_SETS.append(counting + vl + fe)


def ftag(fs):
    return "+".join(fs) if fs else "none"


def memo_documented(fs):
    return ("adhoccounting" not in fs) or ("adhoccountmodels" in fs)


def setup(drv):
    """warm every build a quick check needs (all offline, incremental afterwards)"""
    drv.build_mon()
    drv.build_websim()
    drv.build_cli(tag="default")
    drv.build_cli(features=["variablelist"], tag="variablelist-only")
    drv.build_cli(tag="dev", dev=True)
    drv.build_server()
    for fs in FEATURE_SETS:
        drv.build_mon(features=fs, tag=ftag(fs))
    drv.build_mon()


def run(pid, spec, tier, seed, merged, drv):
    if not spec.get("claimed", True):
        raise drv.Inconclusive("property %s is not claimed: %s" % (pid, spec.get("reason")))
    params = spec[tier] if tier in spec else spec["quick"]
    if pid == "C12":
        return c12(spec, tier, seed, merged, drv, params)
    binary = drv.build_mon()
    if pid == "C15":
        return c15(spec, tier, seed, merged, drv, params, binary)
    if pid in ("C16", "C17"):
        return web(pid, spec, tier, seed, merged, drv, params)
    drv.mon_leg(merged, binary, pid, seed, tier, params)
    if tier == "thorough" and not os.environ.get("VERIF_NO_SANITIZERS"):
        for kind, sub, shards, cases, extra in SANITIZER_PLAN.get(pid, []):
            sanitizer_leg(drv, merged, kind, sub, seed, shards, cases, extra)
    if pid in FEATURE_LEG_PROPS:
        # the property quantifies over inputs/histories, not configurations (that is C12), but large parts of
        # the store code are feature-gated: run the same monitor on the two extreme builds as well
        for fs in ([], ["adhoccounting", "adhoccountmodels", "variablelist", "frontend"]):
            b = drv.build_mon(features=fs, tag=ftag(fs))
            p2 = dict(params)
            p2["cases"] = max(10, params.get("cases", 100) // 5)
            p2["shards"] = 4
            args = dict(params.get("args", {}))
            if "large" in args:
                args["large"] = max(1, int(args["large"]) // 4)
            if pid == "C05":
                args["wide_shards"] = 1
            p2["args"] = args
            drv.mon_leg(merged, b, pid, seed, tier, p2, leg="features[%s]" % ftag(fs))
        drv.build_mon()
    if pid == "C19":
        # the streaming code sits next to feature-gated book-keeping: run the same monitor on the two
        # frontend builds without ad-hoc counting as well (all 6 frontend builds are covered by C12)
        for fs in (["frontend"], ["variablelist", "frontend"]):
            b = drv.build_mon(features=fs, tag=ftag(fs))
            p2 = dict(params)
            p2["cases"] = max(10, params.get("cases", 100) // 4)
            p2["shards"] = 4
            drv.mon_leg(merged, b, pid, seed, tier, p2, leg="features[%s]" % ftag(fs))
        drv.build_mon()
    if pid == "C14":
        # CLI export / import / never-overwrite, for both CLI builds whose import code differs
        for tag, feats in (("default", None), ("variablelist-only", ["variablelist"])):
            cli = drv.build_cli(features=feats, tag=tag)
            cli_leg(drv, merged, binary, "c14cli", seed, tier, cli, params.get("cli_cases", 40), "cli[%s]" % tag)
    if pid in CLI_FLAG_LEGS:
        # the property names command-line flags among its observation points: the same oracle judges what the
        # tool prints for exactly these flags, in all three library modes and under every sort flag
        cli = drv.build_cli(tag="default")
        cli_leg(drv, merged, binary, "c15", seed, tier, cli, params.get("cli_cases", 25), "cli[%s]" % CLI_FLAG_LEGS[pid],
                extra={"only_flags": CLI_FLAG_LEGS[pid], "big_cli_cases": 1 if pid == "C01" else 0}, shards=8)
    if pid == "C08":
        cli = drv.build_cli(tag="default")
        cli_leg(drv, merged, binary, "c15", seed, tier, cli, params.get("cli_cases", 30), "cli-malformed",
                extra={"only_malformed": 1})


def cli_leg(drv, merged, binary, sub, seed, tier, cli, cases, leg, extra=None, shards=None, timeout=1800):
    tmp = os.path.join(drv.CACHE, "run", "cli-%s-%d" % (sub, os.getpid()))
    os.makedirs(tmp, exist_ok=True)
    args = {"cli": cli, "tmp": tmp}
    if extra:
        args.update(extra)
    p = {"cases": cases, "args": args, "timeout": timeout}
    if shards:
        p["shards"] = shards
    drv.mon_leg(merged, binary, sub, seed, tier, p, leg=leg)
    shutil.rmtree(tmp, ignore_errors=True)


def c15(spec, tier, seed, merged, drv, params, binary):
    cli = drv.build_cli(tag="default")
    cli_leg(drv, merged, binary, "c15", seed, tier, cli, params.get("cases", 100), "main")
    # the dev-profile binary, always with debug / trace logging switched on (flags or RUST_LOG): small cases only
    cli_dev = drv.build_cli(tag="dev", dev=True)
    cli_leg(drv, merged, binary, "c15", seed + 3, tier, cli_dev, max(8, params.get("cases", 100) // 5), "cli[dev-profile,verbose]",
            extra={"always_verbose": 1, "wide_cases": 0, "big_cli_cases": 0, "mid_cli_cases": 1, "nmax": 5}, shards=8)
    if tier == "thorough":
        # the CLI code differs with/without adhoccounting; run the same monitor on that build too
        cli2 = drv.build_cli(features=["variablelist", "frontend"], tag="no-adhoccounting")
        cli_leg(drv, merged, binary, "c15", seed + 1, tier, cli2, params.get("cases", 100) // 4, "cli[no-adhoccounting]")
        if shutil.which("valgrind"):
            cli_leg(drv, merged, binary, "c15", seed + 2, tier, cli, params.get("valgrind_cases", 12), "valgrind",
                    extra={"wrapper": "valgrind -q --error-exitcode=97 --leak-check=no",
                           # (25-50x slower: one small wide case and one big case per shard)
                           "wide_cases": 1, "wide_n": 9, "big_cli_cases": 1, "mid_cli_cases": 1}, timeout=3000)
        else:
            merged.inconclusive.append("valgrind not found")


def replay(pid, spec, path, drv):
    """re-run the shard command that produced the recorded witness (deterministic: same seed, shard, sizes)
    against the CURRENT tree and report whether the same signature shows up again"""
    rp = json.load(open(path))
    cmd = rp.get("shard_cmd")
    if not cmd:
        print("replay file has no shard command (violation found by the driver itself, e.g. a probe-transcript "
              "difference): re-run ./check %s --tier %s --seed %s" % (pid, rp.get("tier", "quick"), rp.get("seed", 1)))
        return 2
    # rebuild whatever the command uses from the current tree
    exe = cmd[0]
    try:
        if "websim" in os.path.basename(exe):
            drv.build_server()
            drv.build_websim()
        elif os.path.basename(exe).startswith("mon-"):
            tag = os.path.basename(exe)[4:]
            if tag == "default":
                drv.build_mon()
            else:
                drv.build_mon(features=[f for f in tag.split("+") if f != "none"], tag=tag)
        elif exe == "cargo":
            drv.build_mon_miri()
        elif "target-asan" in exe or "target-tsan" in exe:
            drv.build_mon_sanitizer("asan" if "target-asan" in exe else "tsan")
        else:
            drv.build_mon()
        if "--cli" in cmd:
            cli = cmd[cmd.index("--cli") + 1]
            tag = os.path.basename(cli).replace("adf-bdd-", "")
            feats = {"default": None, "variablelist-only": ["variablelist"], "no-adhoccounting": ["variablelist", "frontend"]}.get(tag)
            drv.build_cli(features=feats, tag=tag)
    except drv.Inconclusive as e:
        print("INCONCLUSIVE property=%s reason=%s" % (pid, e))
        return 2
    out = os.path.join(drv.CACHE, "run", "replay-%d.json" % os.getpid())
    os.makedirs(os.path.dirname(out), exist_ok=True)
    cmd = list(cmd)
    if "--out" in cmd:
        cmd[cmd.index("--out") + 1] = out
    for key in ("--tmp", "--work"):
        if key in cmd:
            d = os.path.join(drv.CACHE, "run", "replay-tmp-%d" % os.getpid())
            os.makedirs(d, exist_ok=True)
            cmd[cmd.index(key) + 1] = d
    cwd = drv.HARNESS if exe == "cargo" else None
    p = subprocess.run(cmd, stdout=subprocess.PIPE, stderr=subprocess.PIPE, text=True, env=drv.env_offline(), cwd=cwd)
    try:
        rep = json.load(open(out))
    except Exception:
        print("INCONCLUSIVE property=%s reason=replay produced no report (exit %s): %s" % (pid, p.returncode, p.stderr[-400:]))
        return 2
    same = [v for v in rep.get("violations", []) if v.get("signature") == rp.get("signature")]
    other = [v for v in rep.get("violations", []) if v.get("signature") != rp.get("signature")]
    for v in (same + other)[:6]:
        print("  %s: %s" % (v.get("signature"), str(v.get("message"))[:400]))
    if same or other:
        print("VIOLATION property=%s replay=%s" % (pid, path))
        return 1
    print("replay of %s: the recorded signature %s does not occur on the current tree" % (path, rp.get("signature")))
    return 0


# ----------------------------------------------------------------------------- C12

SUB_MONITORS = ["c01", "c02", "c03", "c04", "c05", "c06", "c07", "c11", "c13", "c14", "c18", "c20"]


def run_probe(drv, binary, seed, cases, out):
    rep_out = out + ".report.json"
    cmd = [binary, "probe", "--seed", str(seed), "--cases", str(cases), "--probe_out", out, "--out", rep_out]
    p = subprocess.run(cmd, stdout=subprocess.PIPE, stderr=subprocess.PIPE, text=True, env=drv.env_offline(), timeout=1800)
    if p.returncode not in (0,) or not os.path.exists(out):
        raise drv.Inconclusive("probe run failed (exit %s): %s" % (p.returncode, p.stderr[-400:]))
    lines = open(out).read().split("\n")
    return lines, json.load(open(rep_out))


def c12(spec, tier, seed, merged, drv, params):
    tmp = os.path.join(drv.CACHE, "run", "c12-%d" % os.getpid())
    os.makedirs(tmp, exist_ok=True)
    default = drv.build_mon()
    probe_cases = params.get("probe_cases", 60)
    dlines, drep = run_probe(drv, default, seed, probe_cases, os.path.join(tmp, "probe-default.txt"))
    dmap = dict(l.split("\t", 1) for l in dlines if "\t" in l)
    merged.add(drep, "probe[default]")
    merged.legs.append("probe[default]")
    # builds are sequential (one cargo target dir), runs are parallel
    binaries = []
    for fs in FEATURE_SETS:
        binaries.append((fs, drv.build_mon(features=fs, tag=ftag(fs))))
    merged.counters["feature_sets_built"] = len(binaries)
    sub_cases = params.get("sub_cases", 60)
    cmds = []
    meta = []
    env = drv.env_offline()
    for fs, binary in binaries:
        for m in SUB_MONITORS + (["c19"] if "frontend" in fs else []):
            out = os.path.join(tmp, "%s-%s.json" % (ftag(fs), m))
            cmd = [binary, m, "--seed", str(seed), "--shard", "0", "--cases", str(sub_cases), "--out", out, "--for_c12", "1"]
            if tier == "thorough":
                cmd.append("--thorough")
            cmds.append((cmd, out, env))
            meta.append((fs, m))
    res = drv.run_shards(cmds, params.get("timeout", 3000), "C12 sub-monitors")
    for (fs, m), (rep, rc, note) in zip(meta, res):
        leg = "features[%s].%s" % (ftag(fs), m)
        if rep is None:
            merged.inconclusive.append("%s: %s" % (leg, note))
            continue
        merged.add(rep, leg, cmd=cmds[len(merged.legs) * 0 + meta.index((fs, m))][0])
    merged.legs.append("sub-monitors x %d feature sets" % len(binaries))
    # probe transcripts
    compared = 0
    skipped = 0
    for fs, binary in binaries:
        out = os.path.join(tmp, "probe-%s.txt" % ftag(fs))
        lines, rep = run_probe(drv, binary, seed, probe_cases, out)
        fmap = dict(l.split("\t", 1) for l in lines if "\t" in l)
        if set(fmap) != set(dmap):
            merged.violations.append({"signature": "feature-set-changes-transcript-shape",
                                      "message": "feature set [%s]: probe produced %d lines, default %d" % (ftag(fs), len(fmap), len(dmap)),
                                      "replay": {"property": "c12", "features": fs, "seed": seed}, "leg": "probe"})
            continue
        for key, val in fmap.items():
            if ".memo_models." in key:
                # documented exception: compare with the default build's NAIVE answer, and only where memoisation is documented
                if not memo_documented(fs):
                    skipped += 1
                    continue
                # key layout: caseN.memo_models.<rest>  ->  caseN.<rest>
                ref = dmap.get(key.replace("memo_models.", "", 1))
            else:
                ref = dmap.get(key)
            compared += 1
            if ref is None:
                merged.inconclusive.append("probe key %s has no counterpart" % key)
                break
            if ref != val:
                merged.violations.append({
                    "signature": "feature-set-changes-answer:%s" % key.split(".")[-1],
                    "message": "feature set [%s]: %s = %s but the default build answers %s" % (ftag(fs), key, val[:300], ref[:300]),
                    "replay": {"property": "c12", "features": fs, "seed": seed, "key": key, "value": val[:2000], "default": ref[:2000]},
                    "leg": "probe[%s]" % ftag(fs)})
                break
    merged.counters["probe_lines_compared"] = compared
    merged.counters["probe_memo_lines_skipped_as_documented"] = skipped
    merged.legs.append("probe x %d feature sets" % len(binaries))
    shutil.rmtree(tmp, ignore_errors=True)


def web(pid, spec, tier, seed, merged, drv, params):
    server = drv.build_server()
    websim = drv.build_websim()
    tmp = os.path.join(drv.CACHE, "run", "web-%s-%d" % (pid, os.getpid()))
    os.makedirs(tmp, exist_ok=True)
    shards = params.get("shards", 8)
    cmds = []
    env = drv.env_offline()
    env.pop("WEBSIM_ISOLATED", None)
    for sh in range(shards):
        out = os.path.join(tmp, "shard%d.json" % sh)
        cmd = [websim, pid.lower(), "--server", server, "--seed", str(seed), "--shard", str(sh),
               "--cases", str(params.get("cases", 10)), "--out", out, "--work", os.path.join(tmp, "work%d" % sh)]
        if tier == "thorough":
            cmd.append("--thorough")
        for k, v in params.get("args", {}).items():
            cmd += ["--" + k, str(v)]
        cmds.append((cmd, out, env))
    res = drv.run_shards(cmds, params.get("timeout", 1800), pid)
    for sh, (rep, rc, note) in enumerate(res):
        if rep is None:
            merged.inconclusive.append("websim shard %d: %s" % (sh, note))
        else:
            merged.add(rep, "main", cmd=cmds[sh][0])
    merged.legs.append("websim x %d servers" % shards)
    shutil.rmtree(tmp, ignore_errors=True)


# ----------------------------------------------------------------------------- sanitizer legs (thorough tier)

SANITIZER_MARKS = [
    ("Undefined Behavior", "miri-undefined-behaviour"),
    ("Data race detected", "miri-data-race"),
    ("memory leaked", "miri-leak"),
    ("ERROR: AddressSanitizer", "asan-report"),
    ("ERROR: LeakSanitizer", "asan-leak"),
    ("WARNING: ThreadSanitizer", "tsan-report"),
]


def sanitizer_leg(drv, merged, kind, sub, seed, shards, cases, extra=None, timeout=2400):
    """run `mon <sub>` under miri / asan / tsan in `shards` processes; a sanitizer report is a violation"""
    tmp = os.path.join(drv.CACHE, "run", "%s-%s-%d" % (kind, sub, os.getpid()))
    os.makedirs(tmp, exist_ok=True)
    leg = "%s[%s]" % (kind, sub)
    cmds = []
    if kind == "miri":
        drv.build_mon_miri()
    else:
        binary = drv.build_mon_sanitizer(kind)
    for sh in range(shards):
        out = os.path.join(tmp, "shard%d.json" % sh)
        env = drv.env_offline()
        args = [sub, "--seed", str(seed), "--shard", str(sh), "--cases", str(cases), "--out", out]
        ex = dict(extra or {})
        if kind == "miri":
            # the interpreter is about four orders of magnitude slower: none of the big scenarios
            for k in ("wide_cases", "long_cases", "big_cases", "big_files", "long_streams", "tall", "tall_cases",
                      "big_roundtrips", "big_cli_cases", "mid"):
                ex.setdefault(k, 0)
            # (the complete small scopes run natively in every run; 260 ADFs x 15 pipelines would take hours here)
            ex.setdefault("no_exhaustive", 1)
        for k, v in ex.items():
            args += ["--" + k, str(v)]
        if kind == "miri":
            env["MIRIFLAGS"] = "-Zmiri-disable-isolation -Zmiri-seed=%d" % (seed * 100 + sh)
            cmd = ["cargo", "+nightly", "miri", "run", "-q", "-p", "mon", "--target-dir",
                   os.path.join(drv.CACHE, "target-miri"), "--"] + args
        else:
            if kind == "asan":
                env["ASAN_OPTIONS"] = "halt_on_error=1:abort_on_error=0:detect_leaks=1:exitcode=98"
            else:
                env["TSAN_OPTIONS"] = "halt_on_error=1:exitcode=66"
            cmd = [binary] + args
        cmds.append((cmd, out, env))
    # cargo needs the harness directory as cwd for `miri run`
    cwd = os.getcwd()
    os.chdir(drv.HARNESS)
    try:
        res = drv.run_shards(cmds, timeout, leg)
    finally:
        os.chdir(cwd)
    for sh, (rep, rc, note) in enumerate(res):
        if rep is not None:
            merged.add(rep, leg, cmd=cmds[sh][0])
            continue
        hit = None
        for mark, sig in SANITIZER_MARKS:
            if mark in note:
                hit = sig
                break
        if hit:
            merged.violations.append({"signature": hit, "leg": leg,
                                      "message": "%s shard %d: %s" % (leg, sh, note[-1200:]),
                                      "replay": {"property": sub, "sanitizer": kind, "seed": seed, "shard": sh, "cases": cases,
                                                 "extra": extra or {}}})
        else:
            merged.inconclusive.append("%s shard %d: %s" % (leg, sh, note[-400:]))
    merged.counters["%s.processes" % leg] = shards
    merged.legs.append(leg)
    shutil.rmtree(tmp, ignore_errors=True)


# command-line observation points of the library properties (flags of `adf-bdd`)
CLI_FLAG_LEGS = {
    "C01": "grd",
    "C02": "grd,com",
    "C03": "stm,stmpre,stmrew,stmrew2",
    "C04": "stmca,stmcb",
    "C05": "stmng,twoval",
    "C10": "grd,com,stm,stmrew,twoval",
}

# which sanitizer legs a property's thorough tier adds: (kind, sub-command, shards, cases, extra args)
SANITIZER_PLAN = {
    "C01": [("miri", "c01", 4, 2, {"nmax": 3, "large": 0})],
    "C02": [("miri", "c02", 4, 2, {"nmax": 3})],
    "C03": [("miri", "c03", 4, 1, {"nmax": 3})],
    "C04": [("miri", "c04", 4, 1, {"nmax": 3})],
    "C05": [("miri", "c05", 8, 1, {"nmax": 2, "rand_seeds": 1}), ("tsan", "c05", 8, 300, {"nmax": 5}),
            ("asan", "c05", 4, 200, {"nmax": 5})],
    "C06": [("miri", "c06", 6, 2, {}), ("asan", "c06", 8, 400, {})],
    "C07": [("miri", "c07", 4, 1, {}), ("asan", "c07", 8, 400, {})],
    "C18": [("miri", "c18", 8, 10, {}), ("asan", "c18", 8, 5000, {})],
    "C19": [("miri", "c19", 8, 1, {"threaded": 2}), ("tsan", "c19", 8, 30, {"threaded": 300}),
            ("asan", "c19", 4, 30, {"threaded": 100})],
    "C20": [("miri", "c20", 2, 2, {"exhaustive_len": 3, "prefix_take": 20})],
}
