"""Which legs (monitor runs, sanitizer runs, ...) make up each check."""


def setup(drv):
    drv.build_mon()


def run(pid, spec, tier, seed, merged, drv):
    if not spec.get("claimed", True):
        raise drv.Inconclusive("property %s is not claimed: %s" % (pid, spec.get("reason")))
    params = spec[tier] if tier in spec else spec["quick"]
    binary = drv.build_mon()
    drv.mon_leg(merged, binary, pid, seed, tier, params)


def replay(pid, spec, path, drv):
    import subprocess
    binary = drv.build_mon()
    cmd = [binary, pid.lower(), "--replay", path]
    p = subprocess.run(cmd, stdout=subprocess.PIPE, text=True, env=drv.env_offline())
    print(p.stdout[-4000:])
    if p.returncode == 1:
        print("VIOLATION property=%s replay=%s" % (pid, path))
    return p.returncode
