"""Registry of the properties: what is claimed, how it is checked, texts for MANIFEST.json."""

GUARD = "verif_hooks"

# common phrases
ORACLE_NOTE = ("Trusted base: the oracle crate (/verif/harness/oracle, no dependency on adf_bdd), the Rust "
               "toolchain, and the generators' reach. Held-on-what-was-observed, never 'verified'.")

PROPS = {}


def prop(pid, **kw):
    kw.setdefault("claimed", True)
    kw.setdefault("assumptions", [])
    PROPS[pid] = kw


prop("C01",
     design_ref="DESIGN.md §5 C01",
     technique="differential runtime monitor: real back-ends vs definitional least-fixpoint oracle, step-budget hook",
     level_text=("Runtime monitoring: every generated ADF goes through the real parser and all five ways of obtaining a "
                 "grounded interpretation (native, biodivine, hybrid with/without pre-grounding, bridge) under all three "
                 "sort modes; each answer is compared with the least fixpoint computed by enumeration (n<=8) or by the "
                 "support-bounded operator (30-60 statements). Bounded progress via the tick hook."),
     level_note=ORACLE_NOTE,
     rule=("cases = generated ADFs (11 structured families + random, hostile labels, random fact order/layout); "
           "non-trivial = grounded needs >=2 propagation rounds or mixes decided and undecided statements, or is a "
           "large (30-60 statements) instance; distinct by structure hash of the conditions"),
     quick=dict(cases=1500, args={}),
     thorough=dict(cases=15000, args={"nmax": 9, "large": 150}),
     )

prop("C02",
     design_ref="DESIGN.md §5 C02",
     technique="differential runtime monitor: complete-model multisets vs brute-force fixpoint enumeration over 3^n",
     level_text=("Runtime monitoring: complete models returned by native, biodivine, hybrid(+/-) and bridged back-ends "
                 "are compared as multisets with all fixpoints of the three-valued operator found by enumerating 3^n "
                 "interpretations; the first returned model must be the grounded interpretation."),
     level_note=ORACLE_NOTE,
     rule=("cases = generated ADFs as in C01 (n<=6 quick, <=8 thorough); non-trivial = ADF has >=2 complete models; "
           "distinct by structure hash"),
     quick=dict(cases=1500, args={}),
     thorough=dict(cases=10000, args={"nmax": 8}),
     )

prop("C03",
     design_ref="DESIGN.md §5 C03",
     technique="differential runtime monitor: 17 stable-model procedures vs definitional reduct-based oracle",
     level_text=("Runtime monitoring: plain, pre-filtered and both rewriting variants of the stable enumeration on every "
                 "back-end (17 procedure/back-end combinations) are compared as multisets with the stable models by "
                 "definition (two-valued models whose reduct's grounded interpretation re-derives every true statement)."),
     level_note=ORACLE_NOTE,
     rule=("cases = generated ADFs as in C01; non-trivial = ADF has a two-valued model that is not stable, or >=2 "
           "stable models; distinct by structure hash"),
     quick=dict(cases=1200, args={}),
     thorough=dict(cases=8000, args={"nmax": 8}),
     )

prop("C04",
     design_ref="DESIGN.md §5 C04",
     technique="differential runtime monitor + branch-coverage events from the search hook",
     level_text=("Runtime monitoring: both counting-guided procedures on native, hybrid(+/-) and bridged objects are "
                 "compared as multisets with the definitional stable models; hook events show which branch kinds and "
                 "inconsistent cubes in non-final position were exercised."),
     level_note=ORACLE_NOTE,
     rule=("cases = generated ADFs as in C01 plus fixed regression witnesses; non-trivial = the search made >=2 "
           "branching decisions and skipped >=1 inconsistent cube that was not the last cube; distinct by structure hash"),
     quick=dict(cases=2500, args={}),
     thorough=dict(cases=15000, args={"nmax": 8}),
     )

prop("C05",
     design_ref="DESIGN.md §5 C05",
     technique="differential runtime monitor + search-trace invariants + loop-iteration budget (bounded progress)",
     level_text=("Runtime monitoring: nogood-learning search under Simple, both counting heuristics, Rand (>=4/8 seeds per "
                 "ADF) and four adversarial-but-legal custom heuristics, in iterator, stable-channel and two-valued-channel "
                 "mode on native and hybrid objects; result multiset vs oracle, channel must be disconnected afterwards, "
                 "consumer loop with a real solver thread must end, trace invariants (no choice on a decided statement, "
                 "stacks in lock-step, accepted = delivered), termination decided by a logical loop-iteration budget "
                 ">=50x above the largest correct run."),
     level_note=ORACLE_NOTE + " Termination is restated as bounded progress in loop iterations.",
     rule=("cases = generated ADFs (n<=5 quick, <=7 thorough) x 8 heuristics x modes x back-ends; non-trivial = some "
           "search on the ADF backtracked, learned >=1 nogood and ran >=3 loop iterations; distinct by structure hash"),
     quick=dict(cases=400, args={}),
     thorough=dict(cases=3000, args={"nmax": 7}),
     )

NOT_BUILT = "monitor not built yet in this session (work in progress); see DESIGN.md for the planned design"
for _pid in ["C06", "C07", "C08", "C09", "C10", "C11", "C12", "C13", "C14", "C15", "C16", "C17", "C18", "C19", "C20"]:
    prop(_pid, claimed=False, reason=NOT_BUILT)
