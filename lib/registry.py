"""Registry of the properties: what is claimed, how it is checked, texts for MANIFEST.json."""

GUARD = "verif_hooks"

# common phrases
ORACLE_NOTE = ("Trusted base: the oracle crate (/verif/harness/oracle, no dependency on adf_bdd), the Rust "
               "toolchain, and the generators' reach. Held-on-what-was-observed, never 'verified'.")

PROPS = {}


def prop(pid, **kw):
    kw.setdefault("claimed", True)
    kw.setdefault("assumptions", [])
    PROPS[pid] = kw


prop("C01",
     design_ref="DESIGN.md §5 C01",
     technique="differential runtime monitor: real back-ends vs definitional least-fixpoint oracle, step-budget hook",
     level_text=("Runtime monitoring: every generated ADF goes through the real parser and all five ways of obtaining a "
                 "grounded interpretation (native, biodivine, hybrid with/without pre-grounding, bridge) under all three "
                 "sort modes; each answer is compared with the least fixpoint computed by enumeration (n<=8) or by the "
                 "support-bounded operator (30-60 statements). Bounded progress via the tick hook. A command-line leg drives the binary with exactly this property's flags in all three library modes and judges the printed lines with the same oracle."),
     level_note=ORACLE_NOTE,
     rule=("cases = generated ADFs (11 structured families + random, hostile labels, random fact order/layout); "
           "non-trivial = grounded needs >=2 propagation rounds or mixes decided and undecided statements, or is a "
           "large (30-60 statements) instance; distinct by structure hash of the conditions"),
     quick=dict(cases=4000, args={"large": 20}),
     thorough=dict(cases=30000, args={"nmax": 9, "large": 200}),
     exhaustive_key="exhaustive_tiny_adfs",
     exhaustive_scope="all 4 + 256 ADFs over 1 and 2 statements (every pair of Boolean functions), written in three styles",
     )

prop("C02",
     design_ref="DESIGN.md §5 C02",
     technique="differential runtime monitor: complete-model multisets vs brute-force fixpoint enumeration over 3^n",
     level_text=("Runtime monitoring: complete models returned by native, biodivine, hybrid(+/-) and bridged back-ends "
                 "are compared as multisets with all fixpoints of the three-valued operator found by enumerating 3^n "
                 "interpretations; the first returned model must be the grounded interpretation. Mid-size frameworks (12-60 statements, up to ten left undecided by grounding) are judged by the same definitions, evaluated among the refinements of the grounded interpretation (support-bounded operator, validated against enumeration). A command-line leg drives the binary with exactly this property's flags in all three library modes and judges the printed lines with the same oracle."),
     level_note=ORACLE_NOTE,
     rule=("cases = generated ADFs as in C01 (n<=6 quick, <=8 thorough); non-trivial = ADF has >=2 complete models; "
           "distinct by structure hash"),
     quick=dict(cases=3000, args={}),
     thorough=dict(cases=15000, args={"nmax": 8}),
     exhaustive_key="exhaustive_tiny_adfs",
     exhaustive_scope="all 4 + 256 ADFs over 1 and 2 statements (every pair of Boolean functions), written in three styles",
     )

prop("C03",
     design_ref="DESIGN.md §5 C03",
     technique="differential runtime monitor: 17 stable-model procedures vs definitional reduct-based oracle",
     level_text=("Runtime monitoring: plain, pre-filtered and both rewriting variants of the stable enumeration on every "
                 "back-end (17 procedure/back-end combinations) are compared as multisets with the stable models by "
                 "definition (two-valued models whose reduct's grounded interpretation re-derives every true statement). Mid-size frameworks (12-60 statements, up to ten left undecided by grounding) are judged by the same definitions, evaluated among the refinements of the grounded interpretation (support-bounded operator, validated against enumeration). A command-line leg drives the binary with exactly this property's flags in all three library modes and judges the printed lines with the same oracle."),
     level_note=ORACLE_NOTE,
     rule=("cases = generated ADFs as in C01; non-trivial = ADF has a two-valued model that is not stable, or >=2 "
           "stable models; distinct by structure hash"),
     quick=dict(cases=2500, args={}),
     thorough=dict(cases=12000, args={"nmax": 8}),
     exhaustive_key="exhaustive_tiny_adfs",
     exhaustive_scope="all 4 + 256 ADFs over 1 and 2 statements (every pair of Boolean functions), written in three styles",
     )

prop("C04",
     design_ref="DESIGN.md §5 C04",
     technique="differential runtime monitor + branch-coverage events from the search hook",
     level_text=("Runtime monitoring: both counting-guided procedures on native, hybrid(+/-) and bridged objects are "
                 "compared as multisets with the definitional stable models; hook events show which branch kinds and "
                 "inconsistent cubes in non-final position were exercised. Mid-size frameworks (12-60 statements, up to ten left undecided by grounding) are judged by the same definitions, evaluated among the refinements of the grounded interpretation (support-bounded operator, validated against enumeration). A command-line leg drives the binary with exactly this property's flags in all three library modes and judges the printed lines with the same oracle."),
     level_note=ORACLE_NOTE,
     rule=("cases = generated ADFs as in C01 plus fixed regression witnesses; non-trivial = the search made >=2 "
           "branching decisions and skipped >=1 inconsistent cube that was not the last cube; distinct by structure hash"),
     quick=dict(cases=5000, args={}),
     thorough=dict(cases=40000, args={"nmax": 8}),
     exhaustive_key="exhaustive_tiny_adfs",
     exhaustive_scope="all 4 + 256 ADFs over 1 and 2 statements (every pair of Boolean functions), written in three styles",
     )

prop("C05",
     design_ref="DESIGN.md §5 C05",
     technique="differential runtime monitor + search-trace invariants + loop-iteration budget (bounded progress)",
     level_text=("Runtime monitoring: nogood-learning search under Simple, both counting heuristics, Rand (>=4/8 seeds per "
                 "ADF) and four adversarial-but-legal custom heuristics, in iterator, stable-channel and two-valued-channel "
                 "mode on native and hybrid objects; result multiset vs oracle, channel must be disconnected afterwards, "
                 "consumer loop with a real solver thread must end, trace invariants (no choice on a decided statement, "
                 "stacks in lock-step, accepted = delivered), termination decided by a logical loop-iteration budget "
                 ">=50x above the largest correct run (13x for the wide frameworks, whose correct worst case is exactly "
                 "3*2^n iterations). Mid-size frameworks (12-60 statements, up to ten left undecided by grounding) are judged by the same definitions, evaluated among the refinements of the grounded interpretation (support-bounded operator, validated against enumeration). A command-line leg drives the binary with exactly this property's flags in all three library modes and judges the printed lines with the same oracle."),
     level_note=ORACLE_NOTE + " Termination is restated as bounded progress in loop iterations.",
     rule=("cases = generated ADFs (n<=5 quick, <=7 thorough) x 8 heuristics x modes x back-ends; non-trivial = some "
           "search on the ADF backtracked, learned >=1 nogood and ran >=3 loop iterations; distinct by structure hash"),
     quick=dict(cases=800, args={}),
     thorough=dict(cases=5000, args={"nmax": 7}),
     exhaustive_key="exhaustive_tiny_adfs",
     exhaustive_scope="all 4 + 256 ADFs over 1 and 2 statements (every pair of Boolean functions), written in three styles",
     )

prop("C06",
     design_ref="DESIGN.md §5 C06",
     technique="invariant monitor at quiescent points: structural + semantic audit of the live node table and (hook H3) private tables",
     level_text=("Runtime monitoring: random operation histories on one shared store (fresh, taken over from a natively "
                 "compiled ADF, or from a bridged ADF), interleaved with export/import+repair and rebuild-from-node-list; "
                 "after every operation (half of the histories) or every 8 operations the node table is audited: constants "
                 "in place, no equal branches, children earlier and testing later variables, no duplicate nodes, all "
                 "entries denote pairwise different functions (truth tables), unique table = inverse of node table; every "
                 "operation result is compared handle-wise with all earlier handles (same handle iff same function). Start stores include replicas filled through bounded channels by a producer thread."),
     level_note=ORACLE_NOTE + " Truth tables bound the store to <=11 variables.",
     rule=("cases = operation histories (10-120 operations, 1-11 variables); non-trivial = history reached >=8 nodes and "
           ">=6 distinct functions; distinct by hash of the operation transcript"),
     quick=dict(cases=1000, args={}),
     thorough=dict(cases=8000, args={}),
     )

prop("C07",
     design_ref="DESIGN.md §5 C07",
     technique="shadow-state monitor: truth table per issued handle, prefix immutability, memo-table audit (hook H3)",
     level_text=("Runtime monitoring: every operation result is compared with the operation applied to the operands' "
                 "shadow truth tables (cofactor for restrict), the node-table prefix that existed before the call must be "
                 "unchanged, every issued handle must still denote its function at each audit, and every entry of the "
                 "if-then-else and restrict memo tables is checked semantically; after the history all binary operations on "
                 "random pairs and all restrictions are asked again on warm memo tables."),
     level_note=ORACLE_NOTE,
     rule=("cases = operation histories as in C06 plus a re-query phase; non-trivial as in C06; distinct by transcript hash"),
     quick=dict(cases=1000, args={}),
     thorough=dict(cases=8000, args={}),
     )

prop("C13",
     design_ref="DESIGN.md §5 C13",
     technique="reference-model monitor: counts, depth, supports, cubes recomputed from node table and truth tables",
     level_text=("Runtime monitoring: for every handle produced by the store histories: path counts vs root-to-leaf paths "
                 "counted on the node table, naive (and, where documented, memoised) model counts in exact ratio to "
                 "satisfying/falsifying assignments and agreeing with each other, depth vs longest path, dependency set vs "
                 "essential variables, both impact measures, path cubes pairwise disjoint and covering exactly the "
                 "(counter-)models where the goal variable has the goal value; more_models on all pairs below 64x64. Depth and memoised model counts are also asked cold, before any counting query has filled the count cache."),
     level_note=ORACLE_NOTE + " Diagram depth < 60 (counts are machine words).",
     rule=("cases = store histories; every distinct handle of a history is queried; non-trivial as in C06; "
           "distinct by transcript hash"),
     quick=dict(cases=400, args={}),
     thorough=dict(cases=4000, args={}),
     )

prop("C18",
     design_ref="DESIGN.md §5 C18",
     technique="reference-model monitor: nogood store vs brute-force extension sets, closure via hook H5",
     level_text=("Runtime monitoring: random add sequences (nested, duplicate, subsuming, resolvable nogoods; modes None / "
                 "Equiv / Subsume, also switched mid-sequence) over <=7 variables; for all total assignments and for random "
                 "partial interpretations the store's conclusions and the closure are compared with the set of total "
                 "extensions that avoid all added nogoods: sound literals, no spurious conflict, conflict on direct match, "
                 "nothing forgotten, nothing invented, closure idempotent."),
     level_note=ORACLE_NOTE,
     rule=("cases = (add sequence, interpretations) pairs; non-trivial = >=2 nogoods with one contained in another; "
           "distinct by hash of the add sequence"),
     quick=dict(cases=6000, args={}),
     thorough=dict(cases=40000, args={}),
     exhaustive_key="exhaustive_sequences",
     exhaustive_scope="all add sequences up to length 3 over all 8 non-empty nogoods of 2 variables (and up to length 2 over all 26 of 3 variables), 3 modes, all interpretations",
     )

prop("C19",
     design_ref="DESIGN.md §5 C19",
     technique="schedule-controlled monitor: polls injected at the NodeCreated hook, sequential model of channel chain; threaded poll logs",
     level_text=("Runtime monitoring: producer programs stream over a relay chain of length 2; at every node creation (hook "
                 "H2 is the yield point) the harness polls relay and last receiver with handles 0, 1, existing, next, beyond "
                 "and usize::MAX. For programs creating <=12 nodes every single cut x target x handle kind is enumerated, "
                 "plus random multi-poll schedules; a sequential model predicts table length and answer of every poll and "
                 "every receiver table must equal the producer's prefix. Real producer/poller threads are run as well and "
                 "their poll logs judged afterwards."),
     level_note=ORACLE_NOTE + " A receiver can only observe the channel, so cutting after every send is exhaustive for what it can see.",
     rule=("cases = (producer program, poll schedule) runs; non-trivial = some poll observed a proper prefix of the final "
           "table; distinct by program hash; evidence also counts distinct cut vectors"),
     quick=dict(cases=120, args={}),
     thorough=dict(cases=1200, args={"threaded": 400}),
     )

prop("C20",
     design_ref="DESIGN.md §5 C20",
     technique="exhaustive enumeration monitor (length<=7) + sampled long vectors vs product model",
     level_text=("Runtime monitoring: both public iterators are collected for ALL vectors over {T,F,u} of length 0..7 (3280 "
                 "patterns, complete) and for random vectors of length 8-14, and compared as multisets with the 2^k / 3^k "
                 "product; decided positions unchanged, three-valued starts with the input, handles of undecided positions "
                 "preserved, None forever after the end."),
     level_note=ORACLE_NOTE,
     rule=("cases = interpretation vectors; non-trivial = >=2 undecided positions; distinct by pattern"),
     quick=dict(cases=100, args={}),
     thorough=dict(cases=1500, args={}),
     exhaustive_key="exhaustive_patterns",
     exhaustive_scope="all vectors over {T,F,u} of length 0..7",
     )

prop("C08",
     design_ref="DESIGN.md §5 C08",
     technique="generated positives (AST equality with the public Formula) and constructed negatives double-checked by an independent recogniser",
     level_text=("Runtime monitoring: generated files of the documented grammar (all eight constructors, keyword look-alike "
                 "and quoted labels, random fact order and layout, nesting up to 200) must be accepted with empty remainder; "
                 "the public AST of every condition is compared structurally (labels byte-identical) with what was written, "
                 "the dictionary with first-declaration order, compiled handles with the written functions. Negatives are "
                 "constructed by single edits (bracket deleted/inserted outside quotes, terminator dropped, arity changed, "
                 "trailing garbage, truncation, leading blank, unknown predicate, empty) and must be rejected without a panic. Followed positives also pass through one parser object that is re-sorted between instantiations."),
     level_note=ORACLE_NOTE + " A mutant counts as negative only if the independent recogniser rejects it (and, for bracket edits, brackets are unbalanced by construction).",
     rule=("cases = generated positive files, each followed by ~13 negatives derived from it; non-trivial = positive using "
           ">=3 connective kinds and >=1 special label, or a rejected negative that differs from a valid file by one edit; "
           "distinct by text hash"),
     quick=dict(cases=1000, args={}),
     thorough=dict(cases=10000, args={}),
     )

prop("C09",
     design_ref="DESIGN.md §5 C09",
     technique="per-statement translation check: stored handle walked under assignments vs own formula evaluation, 4 pipelines",
     level_text=("Runtime monitoring: for every parsed ADF and every statement individually the stored handle is walked on "
                 "the public node table under all assignments (n<=10) or 400 uniform/path-directed/corner assignments per "
                 "statement (30-60 statements) and compared with the evaluation of the written condition; pipelines native, "
                 "bridge, hybrid without and with pre-grounding (grounded values substituted, oracle side), all three sort "
                 "modes; the node table of every import also passes the C06 audit."),
     level_note=ORACLE_NOTE,
     rule=("cases = generated ADFs (small: all assignments; large: sampled); non-trivial = >=2 binary connective kinds or a "
           "large instance; distinct by structure hash"),
     quick=dict(cases=800, args={"large": 8}),
     thorough=dict(cases=6000, args={"large": 80}),
     )

prop("C10",
     design_ref="DESIGN.md §5 C10",
     technique="metamorphic monitor over presentations (fact order, sort mode, layout, injective renaming) + oracle for small n",
     level_text=("Runtime monitoring: 3-5 presentations of one ADF (permuted facts, none/lexi/alphanum sorting, layout, "
                 "injective renamings incl. order-reversing and keyword-like/quoted labels) are solved with every procedure "
                 "(grounded on 5 back-ends, complete, stable incl. prefilter, rewriting, both counting searches, nogood "
                 "search, two-valued) and compared as label->value maps across variants and with the definitional oracle; "
                 "printed interpretations are compared with constructed lines, lexi order must be byte-wise. Large instances "
                 "(30-60 statements) are compared metamorphically plus grounded vs the support-bounded oracle. Large and mid-size variants are also compared with the definitional complete / stable / two-valued models (refinements of the grounded interpretation). A command-line leg drives the binary with exactly this property's flags in all three library modes and judges the printed lines with the same oracle."),
     level_note=ORACLE_NOTE,
     rule=("cases = base ADFs with 3-5 variants each; non-trivial = >=3 variants with pairwise different variable orders "
           "and >=2 complete models, or a large instance; distinct by structure hash"),
     quick=dict(cases=250, args={"large": 4}),
     thorough=dict(cases=2500, args={"large": 50}),
     )

prop("C11",
     design_ref="DESIGN.md §5 C11",
     technique="history monitor: answer-after-history vs fresh object vs oracle, twin-run transcript equality, private-table audit (hook H3)",
     level_text=("Runtime monitoring: one long-lived object per case receives a random sequence of 12-60 public API calls "
                 "(all semantics, nogood search under all built-in heuristics incl. seeded Rand, counting, depth, supports, "
                 "impacts, cubes, extra formulas and restrictions built on the shared diagram). After each call the answer "
                 "equals that of a freshly built object and the oracle, roots and node-table prefix are unchanged, and all "
                 "five private tables are audited; a twin object fed the same sequence must produce byte-identical answers."),
     level_note=ORACLE_NOTE,
     rule=("cases = (ADF, call sequence); non-trivial = node table at least doubled and >=3 different semantics were "
           "interleaved; distinct by hash of ADF structure and call sequence"),
     quick=dict(cases=6000, args={}),
     thorough=dict(cases=30000, args={}),
     )

prop("C14",
     design_ref="DESIGN.md §5 C14",
     technique="history monitor with export/import and string-encoded rebuild at a random point; imported copies re-queried",
     level_text=("Runtime monitoring: at a random point of a C11-style call history the object is exported to JSON and "
                 "imported (+ repair step) and rebuilt from node list / ordering / root handles through the same string "
                 "encoding the web service uses; node tables, roots and names must be identical, the private tables of the "
                 "copies pass the audit, and the copies must answer every later call like the original and the oracle. Big round trips are also judged on complete / stable / nogood / counting answers of both copies against the definition."),
     level_note=ORACLE_NOTE + " CLI export/import legs are part of the CLI checks.",
     rule=("cases = (ADF, call sequence, export point); non-trivial as in C11; distinct by hash of structure and sequence"),
     quick=dict(cases=3000, args={}),
     thorough=dict(cases=15000, args={}),
     )

prop("C12",
     design_ref="DESIGN.md §5 C12",
     technique="same runtime monitors + deterministic probe transcript under all 12 cargo feature sets, compared with default build and oracles",
     level_text=("Runtime monitoring under every feature configuration: the monitor binary is compiled 12 times (ad-hoc "
                 "counting off / paths / paths+models x variable lists x frontend); each build runs the monitors of C01-C07, "
                 "C11, C13, C14, C18, C20 (and C19 with frontend) against the oracles and produces a deterministic probe "
                 "transcript (semantics answers incl. order, restrict results as truth tables, paths, naive and memoised "
                 "model counts, depth, dependency sets, impacts, cubes, facet counts) that is compared line by line with the "
                 "default build's; memoised model counts are compared with the naive ones and only where documented."),
     level_note=ORACLE_NOTE + " The CLI feature builds are exercised by the CLI checks.",
     rule=("cases = (feature set, monitor case) and probe ADFs; non-trivial = any case counted as non-trivial by the "
           "sub-monitor run under a feature set, or a probe ADF; distinct by the sub-monitors' hashes"),
     quick=dict(cases=0, probe_cases=40, sub_cases=60, timeout=3000),
     thorough=dict(cases=0, probe_cases=300, sub_cases=600, timeout=6000),
     )

prop("C15",
     design_ref="DESIGN.md §5 C15",
     technique="process-level monitor: stdout/exit status of the CLI built from the tree vs lines constructed from the oracle",
     level_text=("Runtime monitoring at the process boundary: the adf-bdd binary built from the current tree is run on "
                 "generated files x --lib {naive,biodivine,hybrid} x {none,--lx,--an} x random subsets of the ten semantics "
                 "flags x --heu {absent, 4 heuristics}; exit status must be 0, first line the grounded interpretation, then "
                 "the complete models (grounded first), the remaining lines as a multiset must contain every section the "
                 "mode wires, built from the oracle's interpretations, labels and expected statement order. Malformed files "
                 "(syntax errors, undeclared statements) must exit non-zero without printing an interpretation. Thorough: "
                 "second CLI feature build and a valgrind memcheck sample. Mid-size files (12-60 statements) with every flag; wide files up to 2048 two-valued models in the quick tier; a second leg drives the dev-profile binary with debug / trace logging always on."),
     level_note=ORACLE_NOTE + " Alphanumeric statement order is taken from the library's own sort (C10 covers order independence).",
     rule=("cases = generated files, 3 invocations (one per library mode) plus malformed variants each; non-trivial = "
           "invocation with >=2 semantics flags printing >=2 lines, or a rejected malformed file; distinct by structure/text hash"),
     quick=dict(cases=200),
     thorough=dict(cases=2000, valgrind_cases=12),
     )

WEB_NOTE = ("Trusted base: the in-process MongoDB wire-protocol stub and HTTP client of /verif/harness/websim, the "
            "oracle crate, network-namespace isolation (unshare -n; falls back to a lock on port 8080).")

prop("C16",
     design_ref="DESIGN.md §5 C16",
     technique="HTTP history monitor against the real server process + stub DB: stored models vs oracle, graph walker, task book-keeping",
     level_text=("Runtime monitoring at the HTTP boundary: the server binary built from the tree (hooks on) runs against an "
                 "in-process MongoDB stub; for generated codes (both parsing strategies) the harness adds the problem, "
                 "polls, issues all six solves in random order with repeated/early solves, and checks EVERY GET body: "
                 "stored models per strategy = definitional answers (grounded exactly, complete with grounded first), every "
                 "graph = exactly the nodes reachable from the labelled roots and walking lo/hi edges evaluates the "
                 "statement's condition for every assignment extending the shown model, malformed code ends as Error and "
                 "is unusable, a task with a stored result is never listed as running; a second phase injects task delays "
                 "(hook H7) and DB latency and must observe running tasks. Every fifth code is mid-size (12-30 statements); solve requests reset by the client during the database lookup; a task listed as running is judged against the idleness of the server process (progress, not a deadline); RUST_LOG of the server varies per shard."),
     level_note=WEB_NOTE + " 'Eventually stored' is decided as bounded progress (ended-but-unstored for 1500 polls).",
     rule=("cases = submitted codes (n<=5 quick, <=6 thorough; 1 in 6 malformed) with the full request history; "
           "non-trivial = code with >=2 complete models or a malformed code; distinct by code hash"),
     quick=dict(cases=40, shards=8),
     thorough=dict(cases=150, shards=8, timeout=3000),
     )

prop("C17",
     design_ref="DESIGN.md §5 C17",
     technique="concurrent multi-user HTTP histories: per-user sequential model, marker-based isolation check, DB audit at barriers",
     level_text=("Runtime monitoring of concurrent histories: 2-3 user threads with own cookie jars drive random sequences "
                 "of register/login/logout/update/delete-account/add/solve/get/list/delete with re-used problem names, "
                 "unique markers per (user, problem) and unique password tokens. Every response is compared with the "
                 "status a single-user model predicts and scanned for foreign markers; at barriers the stub database must "
                 "equal the union of the user models (owner, name, code of every problem; accounts; argon2 hashes, no "
                 "repeated hash, no password token in any DB command); unauthenticated requests must get 401 and no data; "
                 "logins with stale/wrong passwords and on temporary accounts must fail. Random think times, task delays "
                 "(H7) and DB latency vary the interleavings; a dedicated probe replays the account-name re-use history. RUST_LOG of the server process varies per shard (unset, info, warn, debug)."),
     level_note=WEB_NOTE + " Interleavings are those produced by threads, think times and injected delays, not an enumeration.",
     rule=("cases = concurrent histories (2-3 users x 24-40 steps); non-trivial = >=2 users were active and >=10 requests "
           "were made; distinct by hash of the (user, operation, status) sequence; evidence counts distinct DB command interleavings"),
     quick=dict(cases=30, shards=8),
     thorough=dict(cases=120, shards=8, timeout=3000),
     )


# scenarios added after the seeding rounds (appended to the level texts in MANIFEST.json)
MORE = {
    "C01": "Also tall frameworks (64-90 statements, one condition chained over nearly all others: diagrams of 64+ "
           "levels) on every back-end and order, judged by the strong-Kleene least fixpoint (exact for read-once "
           "conditions; the oracle itself is validated against enumeration in the oracle crate's tests).",
    "C05": "Also wide frameworks (10-11 loosely coupled statements, 1024-2048 two-valued models, thousands of learnt "
           "nogoods): the event sink stops a search that arrives at more two-valued fixpoints than models exist. Every "
           "fourth shard of every library monitor runs with a logger at trace level that formats every record.",
    "C06": "Also long histories on one store (14-20 variables, 250 000 nodes quick / 600 000 thorough, ~650 000 memo "
           "entries) shadowed by the value of every node under 64 fixed assignments, with the full audit whenever the "
           "table has grown fourfold.",
    "C07": "Also the long histories of C06 (every result must be the word-wise function of its operands' values "
           "under 64 fixed assignments; every memo entry sampled at the checkpoints).",
    "C08": "A quarter of the positives are followed through every consumer of the parse result to the stable models "
           "(C03 oracle). Big files: 257-66 000 statements (140 000 thorough), labels of 300-600 bytes, decimal labels "
           "beyond 64 bits.",
    "C09": "An eighth of the small cases carry one condition nested 30-300 levels deep through every pipeline.",
    "C13": "Also tall diagrams (33-60 variables, chains and parities, children dozens of levels apart): paths, depth "
           "and support recounted from the node table, satisfying assignments counted from the structure alone, so "
           "the ratio is judged exactly without truth tables.",
    "C14": "Also big (30-60 statements) and tall (64-90 statements, 64+ levels) frameworks through both round trips, "
           "grounded interpretation against the oracle; CLI exports into a directory of decoy files with related "
           "names, none of which may change.",
    "C15": "Also wide files (up to 2048 two-valued models), logging options and RUST_LOG (stdout must not change); a "
           "run that does not end is judged by progress (all threads asleep, no CPU time for 15 s, pipes drained), "
           "never by a deadline.",
    "C18": "Also stores with 1050-2600 nogoods of one size over 11-13 variables, judged on all 2^n total assignments.",
    "C19": "Also long streams (150 000 nodes quick / 500 000 thorough) through a relay chain polled between "
           "producer operations.",
}
for _pid, _txt in MORE.items():
    PROPS[_pid]["level_more"] = _txt
