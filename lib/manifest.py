"""Writes MANIFEST.json from the registry."""
import json
import os
import subprocess


def hook_commits():
    try:
        out = subprocess.run(["git", "-C", "/repo", "log", "--format=%H %s"], stdout=subprocess.PIPE, text=True).stdout
    except Exception:
        return []
    return [l.split()[0] for l in out.splitlines() if " verif_hooks" in l]


def write(verif, props):
    checks = []
    na = []
    for pid in sorted(props):
        sp = props[pid]
        if not sp.get("claimed", True):
            na.append({"property_id": pid, "reason": sp.get("reason", "")})
            continue
        checks.append({
            "property_id": pid,
            "quick_cmd": "./check %s --tier quick" % pid,
            "thorough_cmd": "./check %s --tier thorough" % pid,
            "evidence_file": "/verif/evidence/%s.json" % pid,
            "replay_cmd_template": "./check %s --replay {path}" % pid,
            "engine": "websim" if pid in ("C16", "C17") else "mon",
            "level_claimed": {
                "category": "exploration",
                "text": sp["level_text"] + ((" " + sp["level_more"]) if sp.get("level_more") else ""),
                "design_ref": sp["design_ref"],
            },
            "level_note": sp["level_note"],
            "technique": sp["technique"],
        })
    m = {
        "version": 1,
        "setup_cmd": "./check setup",
        "hooks": {
            "guard": "cargo feature verif_hooks (lib/Cargo.toml, server/Cargo.toml)",
            "enable": ("monitors depend on adf_bdd {path=/repo/lib, features=[verif_hooks]}; the server is built with "
                       "--features verif_hooks; the CLI is built without hooks"),
            "baseline_off_cmd": "cd /repo && cargo test --workspace --no-fail-fast --offline",
            "source_commits": hook_commits(),
            "add_only": True,
        },
        "engines": [
            {"name": "mon", "path": "/verif/harness/mon",
             "serves_properties": [c["property_id"] for c in checks if c["property_id"] not in ("C16", "C17")],
             "kind_free_text": "Rust runtime monitors linked against /repo/lib (working tree) with observation hooks "
                               "(also built under 12 feature sets, Miri, ASan, TSan); the CLI monitors run the adf-bdd "
                               "binary built from /repo as a process; reference models in /verif/harness/oracle"},
            {"name": "websim", "path": "/verif/harness/websim",
             "serves_properties": ["C16", "C17"],
             "kind_free_text": "HTTP history monitors: the adf-bdd-server binary built from /repo (hooks on) runs against an "
                               "in-process MongoDB wire-protocol stub inside a private network namespace; per-user "
                               "sequential reference model, database audits at barriers"},
            {"name": "oracle", "path": "/verif/harness/oracle",
             "serves_properties": [c["property_id"] for c in checks],
             "kind_free_text": "reference models independent of adf_bdd: truth tables, three-valued operator by enumeration, "
                               "brute-force complete/two-valued/stable models, support-bounded operator, grammar generator "
                               "and recogniser"},
            {"name": "driver", "path": "/verif/check",
             "serves_properties": [c["property_id"] for c in checks],
             "kind_free_text": "python3 driver: builds from /repo's working tree, shards, watchdogs, merges reports, known "
                               "findings, evidence, three-valued verdict, replay"},
        ],
        "checks": checks,
        "notes": "Verdicts are three-valued: exit 0 held on what was observed, 1 violation, 2 inconclusive. "
                 "VERIF_SEED and VERIF_TIER are honoured. Known findings: /verif/known_findings.json.",
        "not_applicable": na,
    }
    with open(os.path.join(verif, "MANIFEST.json"), "w") as f:
        json.dump(m, f, indent=1)
        f.write("\n")
