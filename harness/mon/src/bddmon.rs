//! C06 / C07 / C13: monitors on the diagram store itself.
//! A shadow truth table is kept for every issued handle; structural and semantic audits run at
//! quiescent points on the public node table and (hook H3) on copies of the private tables.

use crate::common::*;
use crate::pipes::*;
use adf_bdd::datatypes::{BddNode, ModelCounts, Term, Var};
use adf_bdd::obdd::Bdd;
use oracle::{Rng, TT};
use serde_json::{json, Value};
use std::collections::{HashMap, HashSet};

/// facts recomputed from the public node table, independent of the library's caches
pub struct NodeFacts {
    pub nvars: usize,
    pub tt: Vec<Option<TT>>,
    pub paths: Vec<(u128, u128)>,
    pub depth: Vec<usize>,
    pub support: Vec<u64>,
    /// counts by the library's documented scheme: relative to the depth of the sub diagram
    pub counts: Vec<(u128, u128)>,
    /// number of satisfying assignments among the 2^nvars assignments, from the structure alone
    /// (sat(node) = (sat(lo) + sat(hi)) / 2; exact on an ordered diagram); empty when nvars > 100
    pub sat: Vec<u128>,
}

/// structural audit of the public node table; returns the first problem
pub fn audit_structure(nodes: &[BddNode]) -> Result<(), String> {
    if nodes.len() < 2 {
        return Err("node table has fewer than two entries".into());
    }
    if nodes[0] != BddNode::bot_node() {
        return Err(format!("entry 0 is not the bottom constant: {}", nodes[0]));
    }
    if nodes[1] != BddNode::top_node() {
        return Err(format!("entry 1 is not the top constant: {}", nodes[1]));
    }
    let mut seen: HashMap<(usize, usize, usize), usize> = HashMap::new();
    for (i, n) in nodes.iter().enumerate().skip(2) {
        if n.var().is_constant() {
            return Err(format!("inner entry {} carries a constant variable", i));
        }
        if n.lo() == n.hi() {
            return Err(format!("node {} has equal branches ({})", i, n));
        }
        for (which, c) in [("lo", n.lo()), ("hi", n.hi())] {
            if c.value() >= i {
                return Err(format!("node {}: {} child {} is not an earlier entry", i, which, c.value()));
            }
            let cn = nodes[c.value()];
            if !cn.var().is_constant() && cn.var() <= n.var() {
                return Err(format!(
                    "node {} tests {} but its {} child {} tests {} (not strictly later)",
                    i,
                    n.var(),
                    which,
                    c.value(),
                    cn.var()
                ));
            }
        }
        let key = (n.var().value(), n.lo().value(), n.hi().value());
        if let Some(j) = seen.insert(key, i) {
            return Err(format!("nodes {} and {} are duplicates ({})", j, i, n));
        }
    }
    Ok(())
}

impl NodeFacts {
    /// `with_tt`: compute truth tables over nvars variables (nvars <= 14)
    pub fn compute(nodes: &[BddNode], nvars: usize, with_tt: bool) -> NodeFacts {
        let mut f = NodeFacts {
            nvars,
            tt: Vec::with_capacity(nodes.len()),
            paths: Vec::with_capacity(nodes.len()),
            depth: Vec::with_capacity(nodes.len()),
            support: Vec::with_capacity(nodes.len()),
            counts: Vec::with_capacity(nodes.len()),
            sat: Vec::new(),
        };
        let with_sat = nvars <= 100;
        for (i, n) in nodes.iter().enumerate() {
            if with_sat {
                let v = match i {
                    0 => 0,
                    1 => 1u128 << nvars,
                    _ => (f.sat[n.lo().value()] + f.sat[n.hi().value()]) / 2,
                };
                f.sat.push(v);
            }
            if i == 0 {
                f.tt.push(with_tt.then(|| TT::constant(nvars, false)));
                f.paths.push((1, 0));
                f.depth.push(0);
                f.support.push(0);
                f.counts.push((1, 0));
            } else if i == 1 {
                f.tt.push(with_tt.then(|| TT::constant(nvars, true)));
                f.paths.push((0, 1));
                f.depth.push(0);
                f.support.push(0);
                f.counts.push((0, 1));
            } else {
                let (lo, hi) = (n.lo().value(), n.hi().value());
                let v = logical(n.var().value());
                if with_tt {
                    let x = TT::var(nvars, v);
                    let t = x
                        .and(f.tt[hi].as_ref().unwrap())
                        .or(&x.not().and(f.tt[lo].as_ref().unwrap()));
                    f.tt.push(Some(t));
                } else {
                    f.tt.push(None);
                }
                f.paths
                    .push((f.paths[lo].0 + f.paths[hi].0, f.paths[lo].1 + f.paths[hi].1));
                let d = f.depth[lo].max(f.depth[hi]) + 1;
                f.depth.push(d);
                f.support
                    .push(f.support[lo] | f.support[hi] | if v < 64 { 1u64 << v } else { 0 });
                let (le, he) = (d - 1 - f.depth[lo], d - 1 - f.depth[hi]);
                let sh = |x: u128, e: usize| if e >= 120 { 0 } else { x << e };
                f.counts.push((
                    sh(f.counts[lo].0, le) + sh(f.counts[hi].0, he),
                    sh(f.counts[lo].1, le) + sh(f.counts[hi].1, he),
                ));
            }
        }
        f
    }

    pub fn tt_of(&self, t: Term) -> &TT {
        self.tt[t.value()].as_ref().expect("truth tables computed")
    }

    pub fn support_vec(&self, t: Term) -> Vec<usize> {
        (0..64).filter(|i| (self.support[t.value()] >> i) & 1 == 1).collect()
    }
}

/// semantic canonicity: all entries denote pairwise different functions (needs truth tables)
pub fn audit_canonical(facts: &NodeFacts) -> Result<(), String> {
    let mut seen: HashMap<u64, Vec<usize>> = HashMap::new();
    for (i, t) in facts.tt.iter().enumerate() {
        let t = t.as_ref().unwrap();
        let h = t.hash64();
        if let Some(others) = seen.get(&h) {
            for j in others {
                if facts.tt[*j].as_ref().unwrap() == t {
                    return Err(format!(
                        "handles {} and {} denote the same Boolean function (table {})",
                        j,
                        i,
                        if facts.nvars <= 6 { t.hex() } else { format!("#{:x}", h) }
                    ));
                }
            }
        }
        seen.entry(h).or_default().push(i);
    }
    Ok(())
}

#[derive(Default, Debug, Clone)]
pub struct AuditCounts {
    pub unique: u64,
    pub var_deps: u64,
    pub count_cache: u64,
    pub ite: u64,
    pub restrict: u64,
}

/// audit of the private tables (hook H3) against facts recomputed from the public node table.
/// `rng` is used to sample assignments when no truth tables are available.
pub fn audit_private(bdd: &Bdd, facts: &NodeFacts, rng: &mut Rng, counts: &mut AuditCounts) -> Result<(), String> {
    let snap = bdd.verif_snapshot();
    let nodes = &bdd.nodes;
    // unique table = inverse of the node table
    if snap.unique.len() != nodes.len() - 2 {
        return Err(format!(
            "unique table has {} entries for {} inner nodes",
            snap.unique.len(),
            nodes.len() - 2
        ));
    }
    for (n, t) in &snap.unique {
        counts.unique += 1;
        if t.value() < 2 || t.value() >= nodes.len() || nodes[t.value()] != *n {
            return Err(format!("unique table maps {} to {} but that entry is {:?}", n, t, nodes.get(t.value())));
        }
    }
    // variable dependencies
    if let Some(vd) = &snap.var_deps {
        if vd.len() != nodes.len() {
            return Err(format!("dependency list has {} entries for {} nodes", vd.len(), nodes.len()));
        }
        for (i, set) in vd.iter().enumerate() {
            counts.var_deps += 1;
            let mut got: Vec<usize> = set.iter().map(|v| logical(v.value())).collect();
            got.sort_unstable();
            let want = facts.support_vec(Term(i));
            if got != want && facts.nvars <= 64 {
                return Err(format!("dependency list of node {} is {:?}, structure says {:?}", i, got, want));
            }
        }
    }
    // count cache
    let cc: HashMap<usize, _> = snap.count_cache.iter().map(|(t, c)| (t.value(), *c)).collect();
    if cfg!(feature = "adhoccounting") && cc.len() != nodes.len() {
        return Err(format!("count cache has {} entries for {} nodes", cc.len(), nodes.len()));
    }
    for (i, (mc, pc, depth)) in &cc {
        counts.count_cache += 1;
        if *i >= nodes.len() {
            return Err(format!("count cache knows handle {} beyond the table", i));
        }
        if (pc.cmodels as u128, pc.models as u128) != facts.paths[*i] {
            return Err(format!("count cache paths of {} are {:?}, recount gives {:?}", i, pc, facts.paths[*i]));
        }
        if *depth != facts.depth[*i] {
            return Err(format!("count cache depth of {} is {}, longest path is {}", i, depth, facts.depth[*i]));
        }
        let models_documented = !cfg!(feature = "adhoccounting") || cfg!(feature = "adhoccountmodels");
        if models_documented && facts.depth[*i] < 60 {
            let sat_known: Option<u128> = match &facts.tt[*i] {
                Some(tt) => Some(tt.count_ones() as u128),
                None if facts.nvars <= 60 && !facts.sat.is_empty() => Some(facts.sat[*i]),
                None => None,
            };
            if let Some(sat) = sat_known {
                let unsat = (1u128 << facts.nvars) - sat;
                let (c, m) = (mc.cmodels as u128, mc.models as u128);
                if c + m == 0 || m * unsat != c * sat {
                    return Err(format!("count cache models of {} are {:?}, but {} of {} assignments satisfy it", i, mc, sat, 1u128 << facts.nvars));
                }
            }
        }
    }
    // memo tables
    let sample = |rng: &mut Rng| -> Vec<bool> { (0..facts.nvars.max(1)).map(|_| rng.bool()).collect() };
    let eval = |t: Term, a: &[bool]| walk(nodes, t, &|i| a.get(logical(i)).copied().unwrap_or(false));
    for ((i, t, e), r) in &snap.ite_cache {
        counts.ite += 1;
        for x in [i, t, e, r] {
            if x.value() >= nodes.len() {
                return Err(format!("ite memo entry mentions handle {} beyond the table", x.value()));
            }
        }
        if facts.tt[0].is_some() {
            let (ti, tt_, te, tr) = (facts.tt_of(*i), facts.tt_of(*t), facts.tt_of(*e), facts.tt_of(*r));
            let want = ti.and(tt_).or(&ti.not().and(te));
            if want != *tr {
                return Err(format!("ite memo ({},{},{}) -> {} is not if-then-else of its operands", i, t, e, r));
            }
        } else {
            for _ in 0..24 {
                let a = sample(rng);
                let want = if eval(*i, &a)? { eval(*t, &a)? } else { eval(*e, &a)? };
                if eval(*r, &a)? != want {
                    return Err(format!("ite memo ({},{},{}) -> {} differs under a sampled assignment", i, t, e, r));
                }
            }
        }
    }
    for ((t, var, val), r) in &snap.restrict_cache {
        counts.restrict += 1;
        if t.value() >= nodes.len() || r.value() >= nodes.len() {
            return Err("restrict memo entry mentions a handle beyond the table".into());
        }
        if facts.tt[0].is_some() {
            if logical(var.value()) < facts.nvars {
                let want = facts.tt_of(*t).cofactor(logical(var.value()), *val);
                if want != *facts.tt_of(*r) {
                    return Err(format!("restrict memo ({},{},{}) -> {} is not the cofactor", t, var, val, r));
                }
            } else if t != r {
                return Err(format!("restrict memo ({},{},{}) -> {} changes a function that cannot depend on the variable", t, var, val, r));
            }
        } else {
            for _ in 0..24 {
                let mut a = sample(rng);
                let got = eval(*r, &a)?;
                if logical(var.value()) < a.len() {
                    a[logical(var.value())] = *val;
                }
                if eval(*t, &a)? != got {
                    return Err(format!("restrict memo ({},{},{}) -> {} differs under a sampled assignment", t, var, val, r));
                }
            }
        }
    }
    Ok(())
}

/// full audit used by several properties. `nvars` = number of variables the store talks about.
pub fn full_audit(bdd: &Bdd, nvars: usize, rng: &mut Rng, counts: &mut AuditCounts) -> Result<NodeFacts, String> {
    audit_structure(&bdd.nodes)?;
    let with_tt = nvars <= 12;
    let facts = NodeFacts::compute(&bdd.nodes, nvars, with_tt);
    if with_tt {
        audit_canonical(&facts)?;
    }
    audit_private(bdd, &facts, rng, counts)?;
    Ok(facts)
}

// ------------------------------------------------------------------------------------------
// operation workload with shadow truth tables

#[derive(Clone, Debug)]
pub enum Op {
    Var(usize),
    Const(bool),
    Not(usize),
    And(usize, usize),
    Or(usize, usize),
    Imp(usize, usize),
    Iff(usize, usize),
    Xor(usize, usize),
    Restrict(usize, usize, bool),
    /// legal direct node creation: variable smaller than everything the children depend on
    Node(usize, usize, usize),
    /// serde export + import + repair, continue on the imported store
    Reimport,
    /// rebuild from the plain node list, continue on the rebuilt store
    Rebuild,
}

pub struct Store {
    pub bdd: Bdd,
    pub nvars: usize,
    /// issued handles with the truth table they had when issued
    pub issued: Vec<(Term, TT)>,
    pub ops: Vec<String>,
    /// copy of the node table after the previous operation
    pub prev_nodes: Vec<BddNode>,
}

pub fn fmt_ops(ops: &[String]) -> Value {
    let tail: Vec<&String> = ops.iter().rev().take(60).rev().collect();
    json!(tail)
}

impl Store {
    pub fn new(nvars: usize) -> Store {
        let bdd = Bdd::new();
        let prev_nodes = bdd.nodes.clone();
        Store {
            bdd,
            nvars,
            issued: vec![
                (Term::BOT, TT::constant(nvars, false)),
                (Term::TOP, TT::constant(nvars, true)),
            ],
            ops: Vec::new(),
            prev_nodes,
        }
    }

    /// adopt an existing store (e.g. the diagram of a compiled ADF): every entry becomes an issued handle
    pub fn adopt(bdd: Bdd, nvars: usize) -> Result<Store, String> {
        audit_structure(&bdd.nodes)?;
        let facts = NodeFacts::compute(&bdd.nodes, nvars, true);
        let issued = (0..bdd.nodes.len())
            .map(|i| (Term(i), facts.tt[i].clone().unwrap()))
            .collect();
        let prev_nodes = bdd.nodes.clone();
        Ok(Store {
            bdd,
            nvars,
            issued,
            ops: vec!["<adopted store>".into()],
            prev_nodes,
        })
    }

    pub fn random_op(&self, rng: &mut Rng) -> Op {
        let k = self.issued.len();
        let pick = |rng: &mut Rng| -> usize {
            // prefer recent handles, but re-use old ones too
            if rng.chance(1, 3) && k > 6 {
                k - 1 - rng.below(6)
            } else {
                rng.below(k)
            }
        };
        match rng.below(34) {
            0..=3 => Op::Var(rng.below(self.nvars)),
            4 => Op::Const(rng.bool()),
            5..=7 => Op::Not(pick(rng)),
            8..=11 => Op::And(pick(rng), pick(rng)),
            12..=15 => Op::Or(pick(rng), pick(rng)),
            16..=18 => Op::Imp(pick(rng), pick(rng)),
            19..=21 => Op::Iff(pick(rng), pick(rng)),
            22..=24 => Op::Xor(pick(rng), pick(rng)),
            25..=29 => Op::Restrict(pick(rng), rng.below(self.nvars + 1), rng.bool()),
            30 | 31 => {
                // node(var, lo, hi) with var below the support of both children
                for _ in 0..8 {
                    let (lo, hi) = (pick(rng), pick(rng));
                    let minsup = self.issued[lo]
                        .1
                        .support()
                        .into_iter()
                        .chain(self.issued[hi].1.support())
                        .min()
                        .unwrap_or(self.nvars);
                    if minsup > 0 {
                        return Op::Node(rng.below(minsup), lo, hi);
                    }
                }
                Op::Not(pick(rng))
            }
            32 => Op::Reimport,
            _ => Op::Rebuild,
        }
    }

    /// apply one operation to the real store and check the result against the shadow tables.
    /// Returns Err(description) on a violation of C06/C07.
    pub fn apply(&mut self, op: &Op) -> Result<Option<usize>, String> {
        let h = |i: usize| self.issued[i].0;
        let desc;
        let expected: TT;
        let result: Term;
        match op {
            Op::Var(v) => {
                desc = format!("variable({})", v);
                result = self.bdd.variable(Var(actual(*v)));
                expected = TT::var(self.nvars, *v);
            }
            Op::Const(b) => {
                desc = format!("constant({})", b);
                result = Bdd::constant(*b);
                expected = TT::constant(self.nvars, *b);
            }
            Op::Not(a) => {
                desc = format!("not({})", h(*a));
                result = self.bdd.not(h(*a));
                expected = self.issued[*a].1.not();
            }
            Op::And(a, b) => {
                desc = format!("and({},{})", h(*a), h(*b));
                result = self.bdd.and(h(*a), h(*b));
                expected = self.issued[*a].1.and(&self.issued[*b].1);
            }
            Op::Or(a, b) => {
                desc = format!("or({},{})", h(*a), h(*b));
                result = self.bdd.or(h(*a), h(*b));
                expected = self.issued[*a].1.or(&self.issued[*b].1);
            }
            Op::Imp(a, b) => {
                desc = format!("imp({},{})", h(*a), h(*b));
                result = self.bdd.imp(h(*a), h(*b));
                expected = self.issued[*a].1.imp(&self.issued[*b].1);
            }
            Op::Iff(a, b) => {
                desc = format!("iff({},{})", h(*a), h(*b));
                result = self.bdd.iff(h(*a), h(*b));
                expected = self.issued[*a].1.iff(&self.issued[*b].1);
            }
            Op::Xor(a, b) => {
                desc = format!("xor({},{})", h(*a), h(*b));
                result = self.bdd.xor(h(*a), h(*b));
                expected = self.issued[*a].1.xor(&self.issued[*b].1);
            }
            Op::Restrict(a, v, val) => {
                desc = format!("restrict({},Var({}),{})", h(*a), v, val);
                result = self.bdd.restrict(h(*a), Var(actual(*v)), *val);
                expected = if *v < self.nvars {
                    self.issued[*a].1.cofactor(*v, *val)
                } else {
                    self.issued[*a].1.clone()
                };
            }
            Op::Node(v, lo, hi) => {
                desc = format!("node(Var({}),{},{})", v, h(*lo), h(*hi));
                result = self.bdd.node(Var(actual(*v)), h(*lo), h(*hi));
                let x = TT::var(self.nvars, *v);
                expected = x.and(&self.issued[*hi].1).or(&x.not().and(&self.issued[*lo].1));
            }
            Op::Reimport => {
                self.ops.push("export+import+fix_import".into());
                let s = serde_json::to_string(&self.bdd).map_err(|e| format!("export failed: {}", e))?;
                let mut b: Bdd = serde_json::from_str(&s).map_err(|e| format!("import failed: {}", e))?;
                b.fix_import();
                if b.nodes != self.bdd.nodes {
                    return Err("node table changed by export/import".into());
                }
                self.bdd = b;
                return Ok(None);
            }
            Op::Rebuild => {
                self.ops.push("Bdd::from(nodes)".into());
                let b = Bdd::from(self.bdd.nodes.clone());
                if b.nodes != self.bdd.nodes {
                    return Err(format!(
                        "rebuilding from the node list changed the numbering ({} -> {} entries)",
                        self.bdd.nodes.len(),
                        b.nodes.len()
                    ));
                }
                self.bdd = b;
                return Ok(None);
            }
        }
        self.ops.push(format!("{} -> {}", desc, result));
        // prefix immutability: no previously issued handle may change its node
        if self.bdd.nodes.len() < self.prev_nodes.len()
            || self.bdd.nodes[..self.prev_nodes.len()] != self.prev_nodes[..]
        {
            return Err(format!("{}: entries of the node table that existed before the call were modified", desc));
        }
        self.prev_nodes.extend_from_slice(&self.bdd.nodes[self.prev_nodes.len()..]);
        if result.value() >= self.bdd.nodes.len() {
            return Err(format!("{} returned handle {} beyond the node table", desc, result));
        }
        let got = tt_of(&self.bdd.nodes, result, self.nvars)?;
        if got != expected {
            return Err(format!(
                "{} returned {} which denotes {} but the named function is {}",
                desc,
                result,
                if self.nvars <= 6 { got.hex() } else { format!("#{:x}", got.hash64()) },
                if self.nvars <= 6 { expected.hex() } else { format!("#{:x}", expected.hash64()) }
            ));
        }
        // same function <=> same handle among issued handles
        for (t, tt) in &self.issued {
            if (*tt == expected) != (*t == result) {
                return Err(format!(
                    "{}: result {} vs earlier handle {}: same function = {}, same handle = {}",
                    desc,
                    result,
                    t,
                    *tt == expected,
                    *t == result
                ));
            }
        }
        if expected.is_true() != (result == Term::TOP) || expected.is_false() != (result == Term::BOT) {
            return Err(format!("{}: valid/unsatisfiable function did not collapse to the constant handle (got {})", desc, result));
        }
        self.issued.push((result, expected));
        Ok(Some(self.issued.len() - 1))
    }
}

fn store_nvars(rng: &mut Rng, thorough: bool) -> usize {
    match rng.below(10) {
        0 => 1,
        1 | 2 => 3,
        3..=5 => 4,
        6 | 7 => 5,
        8 => 6,
        _ => {
            if thorough {
                rng.range(7, 11)
            } else {
                rng.range(6, 8)
            }
        }
    }
}

/// start store: fresh, or the diagram of a compiled ADF (native or through the bridge)
fn start_store(rng: &mut Rng, nvars: usize, rep: &mut Report) -> Result<Store, String> {
    #[cfg(feature = "frontend")]
    if rng.chance(1, 6) {
        return if rng.chance(1, 3) { replica_store_threaded(rng, nvars, rep) } else { replica_store(rng, nvars, rep) };
    }
    match rng.below(4) {
        0 | 1 => {
            rep.count("stores_fresh", 1);
            Ok(Store::new(nvars))
        }
        k => {
            let g = oracle::gen::gen_adf(rng, nvars, oracle::gen::LabelMode::Plain);
            let r = g.render(rng, false);
            let o = build(&r.text, Sort::None, true).map_err(|e| e.describe())?;
            let adf = if k == 2 {
                rep.count("stores_from_native_adf", 1);
                parse_native(&o.text, o.sort)
            } else {
                rep.count("stores_from_bridged_adf", 1);
                fresh_adf(&o, if rng.bool() { Backend::HybridNoPre } else { Backend::HybridPre }).unwrap()
            };
            let mut adf = adf;
            // let the semantics grow the table before we take it over
            if rng.bool() {
                let _ = adf.grounded();
                let _: Vec<_> = adf.complete().take(50).collect();
            }
            Store::adopt(adf.bdd, nvars)
        }
    }
}

/// a store that was filled through a channel (targeted and draining polls), then repaired with the
/// documented repair step and from then on used for building operations like any other store
#[cfg(feature = "frontend")]
fn replica_store(rng: &mut Rng, nvars: usize, rep: &mut Report) -> Result<Store, String> {
    rep.count("stores_from_channel_replica", 1);
    let (s, r) = crossbeam_channel::unbounded::<BddNode>();
    let mut producer = Store::new(nvars);
    producer.bdd = Bdd::with_sender(s);
    let mut replica = Bdd::with_receiver(r);
    let nops = rng.range(3, 30);
    for _ in 0..nops {
        let op = loop {
            let op = producer.random_op(rng);
            // export/import would lose the sender
            if !matches!(op, Op::Reimport | Op::Rebuild) {
                break op;
            }
        };
        producer.apply(&op)?;
        if rng.chance(1, 3) {
            // a poll for a handle that may or may not have arrived yet
            let len = replica.nodes.len();
            let h = match rng.below(4) {
                0 => len,
                1 => len + rng.below(4),
                2 => rng.below(len),
                _ => usize::MAX,
            };
            replica.recv(Term(h));
        }
    }
    // catch up: first a targeted poll for the very last handle, then a drain
    let last = producer.bdd.nodes.len() - 1;
    if rng.bool() {
        replica.recv(Term(last));
    }
    replica.recv(Term(usize::MAX));
    if replica.nodes != producer.bdd.nodes {
        return Err(format!("replica holds {} entries, producer {}", replica.nodes.len(), producer.bdd.nodes.len()));
    }
    // no further recv from here on; repair the book-keeping and use the replica as an ordinary store
    drop(producer);
    replica.fix_import();
    Store::adopt(replica, nvars)
}

/// as `replica_store`, but the producer computes on its own thread behind a bounded channel (capacity 0 to 4) and
/// the replica starts polling late: a full channel has to stall the producer, never to lose a node
#[cfg(feature = "frontend")]
fn replica_store_threaded(rng: &mut Rng, nvars: usize, rep: &mut Report) -> Result<Store, String> {
    rep.count("stores_from_channel_replica_threaded_bounded", 1);
    let cap = *rng.pick(&[0usize, 1, 2, 4]);
    let (s, r) = crossbeam_channel::bounded::<BddNode>(cap);
    let mut prng = rng.fork(7);
    let nops = rng.range(5, 40);
    let late_us = rng.below(4) as u64 * 500;
    let handle = std::thread::spawn(move || -> Result<Vec<BddNode>, String> {
        let mut producer = Store::new(nvars);
        producer.bdd = Bdd::with_sender(s);
        for _ in 0..nops {
            let op = loop {
                let op = producer.random_op(&mut prng);
                if !matches!(op, Op::Reimport | Op::Rebuild) {
                    break op;
                }
            };
            producer.apply(&op)?;
        }
        Ok(producer.bdd.nodes.clone())
    });
    let mut replica = Bdd::with_receiver(r);
    std::thread::sleep(std::time::Duration::from_micros(late_us));
    let mut last_len = replica.nodes.len();
    let mut last_progress = std::time::Instant::now();
    while !handle.is_finished() {
        let len = replica.nodes.len();
        let h = match rng.below(3) {
            0 => len,
            1 => len + rng.below(3),
            _ => usize::MAX,
        };
        replica.recv(Term(h));
        if replica.nodes.len() != last_len {
            last_len = replica.nodes.len();
            last_progress = std::time::Instant::now();
        } else if last_progress.elapsed().as_secs() >= 20 {
            // (one operation takes microseconds: bounded progress with > 10^6-fold head-room; the thread is left behind)
            return Err(format!("producer behind a channel of capacity {} made no progress for 20 s although the replica kept polling ({} entries arrived)", cap, last_len));
        }
        if rng.chance(1, 4) {
            std::thread::yield_now();
        }
    }
    let produced = handle.join().map_err(|_| "producer thread panicked".to_string())??;
    replica.recv(Term(usize::MAX));
    if replica.nodes != produced {
        return Err(format!("replica behind a channel of capacity {} holds {} entries, producer {}{}", cap, replica.nodes.len(), produced.len(),
            if replica.nodes.len() <= produced.len() && replica.nodes[..] == produced[..replica.nodes.len()] { " (a prefix)" } else { " (not a prefix)" }));
    }
    replica.fix_import();
    Store::adopt(replica, nvars)
}

pub struct StoreRun {
    pub store: Store,
    pub facts: Option<NodeFacts>,
    /// keeps the sparse variable numbering of this history installed while the run is being queried
    pub varmap_guard: Option<VarMapGuard>,
}

/// one store history: random operations, audits at quiescent points
pub fn store_history(
    cfg: &Cfg,
    rep: &mut Report,
    case_seed: u64,
    audit_every: usize,
) -> Option<StoreRun> {
    let mut rng = Rng::new(case_seed);
    let nvars = store_nvars(&mut rng, cfg.thorough);
    let nops = if nvars <= 4 { rng.range(10, 60) } else { rng.range(20, 120) };
    let replay = |ops: &[String]| json!({"property": cfg.prop, "case_seed": case_seed.to_string(), "nvars": nvars, "ops_tail": fmt_ops(ops)});
    rep.evaluations += 1;
    // a third of the histories number their variables sparsely (gaps, not starting at 0): only fresh stores
    let sparse = rng.chance(1, 3);
    let _varmap_guard = if sparse {
        let mut map = Vec::with_capacity(nvars);
        let mut cur = rng.below(5);
        for _ in 0..nvars {
            map.push(cur);
            cur += *rng.pick(&[1usize, 1, 2, 5, 17, 40]);
        }
        rep.count("stores_with_sparse_variable_numbers", 1);
        rep.max("max_variable_number", *map.last().unwrap_or(&0) as u64);
        Some(set_varmap(Some(map)))
    } else {
        None
    };
    let mut store = match guarded(SMALL_BUDGET, || if sparse { rep.count("stores_fresh", 1); Ok(Store::new(nvars)) } else { start_store(&mut rng, nvars, rep) }) {
        Ok(Ok(s)) => s,
        Ok(Err(e)) => {
            rep.violation("store-start", e, replay(&[]));
            return None;
        }
        Err(c) => {
            rep.violation(&format!("store-start:{}", c.kind()), c.describe(), replay(&[]));
            return None;
        }
    };
    let mut counts = AuditCounts::default();
    let mut arng = rng.fork(99);
    let mut facts = None;
    for step in 0..nops {
        let op = store.random_op(&mut rng);
        let r = guarded(SMALL_BUDGET, || store.apply(&op));
        rep.count("operations", 1);
        rep.count(
            match op {
                Op::Restrict(..) => "op.restrict",
                Op::Reimport => "op.reimport",
                Op::Rebuild => "op.rebuild",
                Op::Node(..) => "op.node",
                Op::Var(_) | Op::Const(_) => "op.var_const",
                Op::Not(_) => "op.not",
                _ => "op.binary",
            },
            1,
        );
        match r {
            Ok(Ok(_)) => {}
            Ok(Err(e)) => {
                rep.violation("operation-result", e, replay(&store.ops));
                return None;
            }
            Err(c) => {
                rep.violation(
                    &format!("operation:{}", c.kind()),
                    format!("{:?}: {}", op, c.describe()),
                    replay(&store.ops),
                );
                return None;
            }
        }
        if step % audit_every == audit_every - 1 || step + 1 == nops {
            rep.count("audits", 1);
            match harness(|| full_audit(&store.bdd, nvars, &mut arng, &mut counts)) {
                Ok(Ok(f)) => {
                    // every issued handle still denotes the function it was issued for
                    for (t, tt) in &store.issued {
                        if f.tt_of(*t) != tt {
                            rep.violation(
                                "handle-changed-meaning",
                                format!("handle {} no longer denotes the function it was issued for", t),
                                replay(&store.ops),
                            );
                            return None;
                        }
                    }
                    facts = Some(f);
                }
                Ok(Err(e)) => {
                    rep.violation("audit", e, replay(&store.ops));
                    return None;
                }
                Err(e) => {
                    rep.inconclusive.push(format!("audit crashed: {}", e));
                    return None;
                }
            }
        }
    }
    rep.count("audit.unique_entries", counts.unique);
    rep.count("audit.var_deps_entries", counts.var_deps);
    rep.count("audit.count_cache_entries", counts.count_cache);
    rep.count("audit.ite_memo_entries", counts.ite);
    rep.count("audit.restrict_memo_entries", counts.restrict);
    rep.max("max_nodes", store.bdd.nodes.len() as u64);
    rep.max("max_vars", nvars as u64);
    let funcs: HashSet<u64> = store.issued.iter().map(|(_, t)| t.hash64()).collect();
    rep.count("distinct_functions_in_histories", funcs.len() as u64);
    if store.bdd.nodes.len() >= 8 && funcs.len() >= 6 {
        rep.nontrivial.insert(hash_str(&store.ops.join(";")));
    }
    if rep.samples.len() < 3 {
        rep.sample(json!({"nvars": nvars, "ops": fmt_ops(&store.ops), "nodes": store.bdd.nodes.len()}));
    }
    Some(StoreRun { store, facts, varmap_guard: _varmap_guard })
}

pub fn c06(cfg: &Cfg, rep: &mut Report) {
    for i in 0..cfg.cases {
        if rep.too_many() {
            break;
        }
        // audit after every operation for half of the cases, every 8 otherwise
        let every = if i % 2 == 0 { 1 } else { 8 };
        store_history(cfg, rep, cfg.case_seed(i), every);
    }
    long_histories(cfg, rep);
}

pub fn long_histories(cfg: &Cfg, rep: &mut Report) {
    let long = cfg.get_usize("long_cases", if cfg.thorough { 2 } else if cfg.shard < 4 && !cfg.flag("trace_log") { 1 } else { 0 });
    for i in 0..long {
        if rep.too_many() {
            break;
        }
        long_history(cfg, rep, cfg.case_seed(4_000_000 + i));
    }
}

/// One long history on one store: 14 to 20 variables, operations on a pool of live handles until the store
/// holds hundreds of thousands of nodes / memo entries (anything keyed on table sizes shows up here).
/// Shadow: the value of every node under 64 fixed random assignments, one machine word per node, extended as
/// the node table grows; every operation result must be the word-wise function of its operands' words. The
/// full audit (structure, unique table, dependency lists, count cache, memo tables) runs at checkpoints.
pub fn long_history(cfg: &Cfg, rep: &mut Report, case_seed: u64) {
    let mut rng = Rng::new(case_seed ^ 0x106);
    let nvars = rng.range(14, 20);
    let max_nodes = cfg.get_usize("long_max_nodes", if cfg.thorough { 600_000 } else { 250_000 });
    let max_ops = cfg.get_usize("long_max_ops", 400_000);
    rep.evaluations += 1;
    rep.count("long_histories", 1);
    let masks: Vec<u64> = (0..nvars).map(|_| rng.next_u64()).collect();
    let mut tail: std::collections::VecDeque<String> = std::collections::VecDeque::new();
    let replay = |tail: &std::collections::VecDeque<String>, ops: usize| json!({"property": cfg.prop, "case_seed": case_seed.to_string(), "long_history": true,
        "nvars": nvars, "operations": ops, "ops_tail": tail.iter().cloned().collect::<Vec<_>>()});
    let mut bdd = Bdd::new();
    let mut sigs: Vec<u64> = vec![0, u64::MAX];
    // extend the shadow words over the new part of the node table
    fn extend(sigs: &mut Vec<u64>, nodes: &[BddNode], masks: &[u64]) -> Result<(), String> {
        while sigs.len() < nodes.len() {
            let i = sigs.len();
            let n = nodes[i];
            let (lo, hi, v) = (n.lo().value(), n.hi().value(), n.var().value());
            if lo >= i || hi >= i || v >= masks.len() {
                return Err(format!("node {} = {} refers to a later entry or an unknown variable", i, n));
            }
            sigs.push((masks[v] & sigs[hi]) | (!masks[v] & sigs[lo]));
        }
        Ok(())
    }
    let mut pool: Vec<Term> = Vec::new();
    let mut var_handles: Vec<Term> = Vec::new();
    for v in 0..nvars {
        let t = bdd.variable(Var(v));
        var_handles.push(t);
        pool.push(t);
    }
    if let Err(e) = extend(&mut sigs, &bdd.nodes, &masks) {
        rep.violation("audit", e, replay(&tail, 0));
        return;
    }
    let mut ops = 0usize;
    let mut next_audit = 20_000usize;
    let mut next_audit_nodes = 10_000usize;
    let mut counts = AuditCounts::default();
    let mut arng = rng.fork(7);
    let budget = SMALL_BUDGET * 50;
    loop {
        let done = ops >= max_ops || bdd.nodes.len() >= max_nodes;
        if ops >= next_audit || bdd.nodes.len() >= next_audit_nodes || done {
            next_audit = ops + 60_000;
            next_audit_nodes = bdd.nodes.len() * 4;
            rep.count("long_history_audits", 1);
            let nodes_now = bdd.nodes.len();
            match harness(|| full_audit(&bdd, nvars, &mut arng, &mut counts)) {
                Ok(Ok(_)) => {}
                Ok(Err(e)) => {
                    rep.violation("audit", format!("after {} operations ({} nodes): {}", ops, nodes_now, e), replay(&tail, ops));
                    return;
                }
                Err(e) => {
                    rep.inconclusive.push(format!("audit crashed: {}", e));
                    return;
                }
            }
            // the variable handles are still the ones issued at the start
            for (v, h) in var_handles.iter().enumerate() {
                let again = bdd.variable(Var(v));
                if again != *h {
                    rep.violation("operation-result", format!("after {} operations variable({}) returns {} instead of {}", ops, v, again, h), replay(&tail, ops));
                    return;
                }
            }
        }
        if done {
            break;
        }
        let pick = |rng: &mut Rng, pool: &[Term]| -> Term {
            if rng.chance(1, 2) {
                pool[pool.len() - 1 - rng.below(pool.len().min(24))]
            } else {
                pool[rng.below(pool.len())]
            }
        };
        let (a, b) = (pick(&mut rng, &pool), pick(&mut rng, &pool));
        let kind = rng.below(12);
        let v = rng.below(nvars);
        let val = rng.bool();
        let desc;
        let r = guarded(budget, || match kind {
            0 | 1 => bdd.and(a, b),
            2 | 3 => bdd.or(a, b),
            4 => bdd.xor(a, b),
            5 => bdd.iff(a, b),
            6 | 7 => bdd.imp(a, b),
            8 => bdd.not(a),
            _ => bdd.restrict(a, Var(v), val),
        });
        ops += 1;
        let (sa, sb) = (sigs[a.value()], sigs[b.value()]);
        let want = match kind {
            0 | 1 => {
                desc = format!("and({},{})", a, b);
                sa & sb
            }
            2 | 3 => {
                desc = format!("or({},{})", a, b);
                sa | sb
            }
            4 => {
                desc = format!("xor({},{})", a, b);
                sa ^ sb
            }
            5 => {
                desc = format!("iff({},{})", a, b);
                !(sa ^ sb)
            }
            6 | 7 => {
                desc = format!("imp({},{})", a, b);
                !sa | sb
            }
            8 => {
                desc = format!("not({})", a);
                !sa
            }
            _ => {
                desc = format!("restrict({},{},{})", a, v, val);
                // cofactor under the sampled assignments: evaluate with variable v forced
                let mut forced = masks.clone();
                forced[v] = if val { u64::MAX } else { 0 };
                let mut w = 0u64;
                for bit in 0..64 {
                    let res = walk(&bdd.nodes, a, &|i| (forced[i] >> bit) & 1 == 1);
                    match res {
                        Ok(true) => w |= 1 << bit,
                        Ok(false) => {}
                        Err(e) => {
                            rep.violation("audit", e, replay(&tail, ops));
                            return;
                        }
                    }
                }
                w
            }
        };
        if tail.len() >= 12 {
            tail.pop_front();
        }
        let r = match r {
            Ok(t) => t,
            Err(c) => {
                rep.violation(&format!("operation:{}", c.kind()), format!("{} after {} operations: {}", desc, ops, c.describe()), replay(&tail, ops));
                return;
            }
        };
        tail.push_back(format!("{} = {}", r, desc));
        if r.value() >= bdd.nodes.len() {
            rep.violation("operation-result", format!("{} returned handle {} beyond the table", desc, r), replay(&tail, ops));
            return;
        }
        if let Err(e) = extend(&mut sigs, &bdd.nodes, &masks) {
            rep.violation("audit", e, replay(&tail, ops));
            return;
        }
        rep.count("long_history_operations", 1);
        if sigs[r.value()] != want {
            rep.violation(
                "operation-result",
                format!("{} returned {} (operation {} of a long history, {} nodes) whose values under 64 sampled assignments are {:016x}, the named function gives {:016x}", desc, r, ops, bdd.nodes.len(), sigs[r.value()], want),
                replay(&tail, ops),
            );
            return;
        }
        // keep big diagrams from taking the pool over completely: results replace random entries once it is full
        if pool.len() < 300 {
            pool.push(r);
        } else {
            let k = nvars + rng.below(pool.len() - nvars);
            pool[k] = r;
        }
    }
    let snap = bdd.verif_snapshot();
    rep.max("long_history_max_nodes", bdd.nodes.len() as u64);
    rep.max("long_history_max_memo_entries", (snap.ite_cache.len() + snap.restrict_cache.len()) as u64);
    rep.max("long_history_max_operations", ops as u64);
    rep.count("audit.unique_entries", counts.unique);
    rep.count("audit.ite_memo_entries", counts.ite);
    rep.count("audit.restrict_memo_entries", counts.restrict);
    rep.nontrivial.insert(hash_str(&format!("long{}", case_seed)));
}

pub fn c07(cfg: &Cfg, rep: &mut Report) {
    for i in 0..cfg.cases {
        if rep.too_many() {
            break;
        }
        let case_seed = cfg.case_seed(i);
        if let Some(run) = store_history(cfg, rep, case_seed, 16) {
            c07_requery(cfg, rep, case_seed, run);
        }
    }
    long_histories(cfg, rep);
}

/// ask every binary operation again on random pairs with warm memo tables, and all restrictions of every handle
fn c07_requery(cfg: &Cfg, rep: &mut Report, case_seed: u64, run: StoreRun) {
    let mut store = run.store;
    let mut rng = Rng::new(case_seed ^ 0x707);
    let k = store.issued.len();
    let nv = store.nvars;
    let replay = move |ops: &[String]| json!({"property": cfg.prop, "case_seed": case_seed.to_string(), "nvars": nv, "phase": "requery", "ops_tail": fmt_ops(ops)});
    let mut todo: Vec<Op> = Vec::new();
    for _ in 0..40.min(k * 2) {
        let (a, b) = (rng.below(k), rng.below(k));
        todo.push(match rng.below(6) {
            0 => Op::And(a, b),
            1 => Op::Or(a, b),
            2 => Op::Imp(a, b),
            3 => Op::Iff(a, b),
            4 => Op::Xor(a, b),
            _ => Op::Not(a),
        });
    }
    for a in 0..k.min(30) {
        for v in 0..store.nvars {
            todo.push(Op::Restrict(a, v, rng.bool()));
        }
    }
    for op in todo {
        rep.count("requery_operations", 1);
        match guarded(SMALL_BUDGET, || store.apply(&op)) {
            Ok(Ok(_)) => {}
            Ok(Err(e)) => {
                let r = replay(&store.ops);
                rep.violation("operation-result", e, r);
                return;
            }
            Err(c) => {
                let r = replay(&store.ops);
                rep.violation(&format!("operation:{}", c.kind()), c.describe(), r);
                return;
            }
        }
    }
}

// ------------------------------------------------------------------------------------------
// C13

fn mc(m: ModelCounts) -> (u128, u128) {
    (m.cmodels as u128, m.models as u128)
}

pub fn c13(cfg: &Cfg, rep: &mut Report) {
    c13_more_models(rep);
    for i in 0..cfg.cases {
        if rep.too_many() {
            break;
        }
        let case_seed = cfg.case_seed(i);
        if let Some(run) = store_history(cfg, rep, case_seed, 1000) {
            c13_queries(cfg, rep, case_seed, run);
        }
    }
    let tall = cfg.get_usize("tall_cases", (cfg.cases / 8).max(if cfg.cases > 0 { 4 } else { 0 }));
    for i in 0..tall {
        if rep.too_many() {
            break;
        }
        c13_tall(cfg, rep, cfg.case_seed(6_000_000 + i));
    }
}

/// Tall diagrams: 33 to 60 variables, long conjunction / disjunction / parity chains and combinations of them,
/// so that the two children of a node differ in depth by dozens of levels and counts need more than 32 bits.
/// Truth tables are out of reach; paths, depth and support are recounted from the public node table, and the
/// number of satisfying assignments comes from the structure alone (NodeFacts::sat). Counts stay below 2^60.
fn c13_tall(cfg: &Cfg, rep: &mut Report, case_seed: u64) {
    let mut rng = Rng::new(case_seed ^ 0x7A11);
    let nvars = rng.range(33, 60);
    rep.evaluations += 1;
    rep.count("tall_diagram_cases", 1);
    let mut log: Vec<String> = Vec::new();
    let replay = |what: String, log: &[String]| json!({"property": cfg.prop, "case_seed": case_seed.to_string(), "tall": true, "nvars": nvars, "query": what, "ops_tail": fmt_ops(log)});
    let built = guarded(SMALL_BUDGET * 10, || {
        let mut bdd = Bdd::new();
        let vars: Vec<Term> = (0..nvars).map(|v| bdd.variable(Var(v))).collect();
        let mut pool: Vec<Term> = Vec::new();
        let mut log: Vec<String> = Vec::new();
        let nops = rng.range(3, 14);
        for _ in 0..nops {
            if bdd.nodes.len() > 20_000 {
                break;
            }
            let kind = rng.below(8);
            let t = match kind {
                0..=2 => {
                    // chain over a long run of variables (ascending or descending fold, some literals negated)
                    let from = rng.below(nvars / 3);
                    let to = rng.range(from + 1, nvars - 1);
                    let conj = rng.bool();
                    let desc = rng.bool();
                    let idx: Vec<usize> = if desc { (from..=to).rev().collect() } else { (from..=to).collect() };
                    let mut acc = if conj { Term::TOP } else { Term::BOT };
                    for v in idx {
                        let lit = if rng.chance(1, 5) { bdd.not(vars[v]) } else { vars[v] };
                        acc = if conj { bdd.and(acc, lit) } else { bdd.or(acc, lit) };
                    }
                    log.push(format!("{} chain over {}..={}", if conj { "and" } else { "or" }, from, to));
                    acc
                }
                3 => {
                    let k = rng.range(2, 9);
                    let mut acc = Term::BOT;
                    for _ in 0..k {
                        acc = bdd.xor(acc, vars[rng.below(nvars)]);
                    }
                    log.push(format!("parity of {} variables", k));
                    acc
                }
                _ if pool.len() >= 2 => {
                    let (a, b) = (pool[rng.below(pool.len())], pool[rng.below(pool.len())]);
                    let r = match rng.below(6) {
                        0 => bdd.and(a, b),
                        1 => bdd.or(a, b),
                        2 => bdd.imp(a, b),
                        3 => bdd.iff(a, b),
                        4 => bdd.restrict(a, Var(rng.below(nvars)), rng.bool()),
                        _ => bdd.not(a),
                    };
                    log.push(format!("{} = op({}, {})", r, a, b));
                    r
                }
                _ => {
                    let v = vars[rng.below(nvars)];
                    log.push(format!("variable {}", v));
                    v
                }
            };
            pool.push(t);
        }
        (bdd, pool, log)
    });
    let (bdd, pool, l) = match built {
        Ok(x) => x,
        Err(c) => {
            rep.violation(&format!("operation:{}", c.kind()), format!("building tall diagrams: {}", c.describe()), replay("build".into(), &log));
            return;
        }
    };
    log = l;
    let mut counts = AuditCounts::default();
    let mut arng = rng.fork(3);
    let facts = match harness(|| full_audit(&bdd, nvars, &mut arng, &mut counts)) {
        Ok(Ok(f)) => f,
        Ok(Err(e)) => {
            rep.violation("audit", e, replay("audit".into(), &log));
            return;
        }
        Err(e) => {
            rep.inconclusive.push(format!("audit crashed: {}", e));
            return;
        }
    };
    rep.max("tall_max_depth", facts.depth.iter().copied().max().unwrap_or(0) as u64);
    rep.max("tall_max_child_depth_difference", bdd.nodes.iter().skip(2).map(|n| facts.depth[n.lo().value()].abs_diff(facts.depth[n.hi().value()])).max().unwrap_or(0) as u64);
    let total: u128 = 1u128 << nvars;
    let memo_documented = !cfg!(feature = "adhoccounting") || cfg!(feature = "adhoccountmodels");
    let mut handles = pool.clone();
    handles.sort();
    handles.dedup();
    // cold depth queries first (see the small stores): before any counting query has filled the count cache
    for t in handles.iter().rev() {
        match guarded(SMALL_BUDGET, || bdd.max_depth(*t)) {
            Ok(d) => {
                rep.count("cold_depths_checked", 1);
                if d != facts.depth[t.value()] {
                    rep.violation("max-depth-wrong", format!("max_depth({}) asked before any counting query = {}, longest root-to-leaf path has {} tests", t, d, facts.depth[t.value()]), replay(format!("cold max_depth({})", t), &log));
                    return;
                }
            }
            Err(c) => {
                rep.violation(&format!("depth:{}", c.kind()), c.describe(), replay(format!("cold max_depth({})", t), &log));
                return;
            }
        }
    }
    for t in handles {
        rep.count("handles_queried", 1);
        let sat = facts.sat[t.value()];
        let unsat = total - sat;
        let mut answers: Vec<ModelCounts> = Vec::new();
        for memo in [false, true] {
            match guarded(SMALL_BUDGET, || bdd.paths(t, memo)) {
                Ok(p) => {
                    rep.count("path_counts_checked", 1);
                    if mc(p) != facts.paths[t.value()] {
                        rep.violation("paths-wrong", format!("paths({}, {}) = {:?}, walking the table gives {:?}", t, memo, p, facts.paths[t.value()]), replay(format!("paths({},{})", t, memo), &log));
                        return;
                    }
                }
                Err(c) => {
                    rep.violation(&format!("paths:{}", c.kind()), c.describe(), replay(format!("paths({},{})", t, memo), &log));
                    return;
                }
            }
            if memo && !memo_documented {
                rep.count("memoised_model_counts_skipped_as_documented", 1);
                continue;
            }
            match guarded(SMALL_BUDGET, || bdd.models(t, memo)) {
                Ok(m) => {
                    rep.count("model_counts_checked", 1);
                    let (c, mm) = mc(m);
                    if c + mm == 0 || mm * unsat != c * sat {
                        rep.violation("models-ratio-wrong", format!("models({}, {}) = {:?} but {} of 2^{} assignments satisfy the function (depth {})", t, memo, m, sat, nvars, facts.depth[t.value()]), replay(format!("models({},{})", t, memo), &log));
                        return;
                    }
                    if m.more_models() != (mm >= c) {
                        rep.violation("more-models-wrong", format!("{:?}.more_models() = {}", m, m.more_models()), replay(format!("more_models({})", t), &log));
                        return;
                    }
                    answers.push(m);
                }
                Err(c) => {
                    rep.violation(&format!("models:{}", c.kind()), c.describe(), replay(format!("models({},{})", t, memo), &log));
                    return;
                }
            }
        }
        if answers.len() == 2 && answers[0] != answers[1] {
            rep.violation("models-naive-vs-memo", format!("models({}, false) = {:?} but models({}, true) = {:?}", t, answers[0], t, answers[1]), replay(format!("models({})", t), &log));
            return;
        }
        match guarded(SMALL_BUDGET, || (bdd.max_depth(t), bdd.var_dependencies(t))) {
            Ok((d, deps)) => {
                rep.count("depths_checked", 1);
                if d != facts.depth[t.value()] {
                    rep.violation("max-depth-wrong", format!("max_depth({}) = {}, longest root-to-leaf path has {} tests", t, d, facts.depth[t.value()]), replay(format!("max_depth({})", t), &log));
                    return;
                }
                let mut got: Vec<usize> = deps.iter().map(|v| v.value()).collect();
                got.sort_unstable();
                rep.count("dependency_sets_checked", 1);
                if got != facts.support_vec(t) {
                    rep.violation("dependencies-wrong", format!("var_dependencies({}) = {:?}, the diagram tests {:?}", t, got, facts.support_vec(t)), replay(format!("var_dependencies({})", t), &log));
                    return;
                }
            }
            Err(c) => {
                rep.violation(&format!("depth:{}", c.kind()), c.describe(), replay(format!("max_depth({})", t), &log));
                return;
            }
        }
    }
    rep.nontrivial.insert(hash_str(&format!("tall{}", case_seed)));
}

fn c13_more_models(rep: &mut Report) {
    for c in 0..64usize {
        for m in 0..64usize {
            rep.count("more_models_pairs", 1);
            let got = ModelCounts::from((c, m)).more_models();
            if got != (m >= c) {
                rep.violation(
                    "more-models-wrong",
                    format!("ModelCounts{{cmodels:{},models:{}}}.more_models() = {}", c, m, got),
                    json!({"property": "c13", "cmodels": c, "models": m}),
                );
                return;
            }
        }
    }
}

fn c13_queries(cfg: &Cfg, rep: &mut Report, case_seed: u64, run: StoreRun) {
    let store = run.store;
    let Some(facts) = run.facts else { return };
    let nvars = store.nvars;
    let bdd = &store.bdd;
    let mut rng = Rng::new(case_seed ^ 0x1313);
    let replay = |what: String| json!({"property": cfg.prop, "case_seed": case_seed.to_string(), "nvars": nvars, "query": what, "ops_tail": fmt_ops(&store.ops)});
    let handles: Vec<Term> = {
        let mut hs: Vec<Term> = store.issued.iter().map(|(t, _)| *t).collect();
        hs.sort();
        hs.dedup();
        hs
    };
    let total: u128 = 1u128 << nvars;
    // cold queries first: depth (and, in half of the cases, memoised model counts) of every handle BEFORE any other
    // counting query has had the chance to fill the count cache - in builds without ad-hoc counting these take
    // the uncached code paths
    let mut cold: Vec<Term> = handles.clone();
    rng.shuffle(&mut cold);
    let cold_models = rng.bool() && (!cfg!(feature = "adhoccounting") || cfg!(feature = "adhoccountmodels"));
    for t in &cold {
        match guarded(SMALL_BUDGET, || bdd.max_depth(*t)) {
            Ok(d) => {
                rep.count("cold_depths_checked", 1);
                if d != facts.depth[t.value()] {
                    rep.violation("max-depth-wrong", format!("max_depth({}) asked before any counting query = {}, longest root-to-leaf path has {} tests", t, d, facts.depth[t.value()]), replay(format!("cold max_depth({})", t)));
                    return;
                }
            }
            Err(c) => {
                rep.violation(&format!("max_depth:{}", c.kind()), c.describe(), replay(format!("cold max_depth({})", t)));
                return;
            }
        }
        if cold_models {
            let sat = facts.tt_of(*t).count_ones() as u128;
            match guarded(SMALL_BUDGET, || bdd.models(*t, true)) {
                Ok(m) => {
                    rep.count("cold_memoised_model_counts_checked", 1);
                    let (c, mm) = mc(m);
                    if c + mm == 0 || mm * (total - sat) != c * sat {
                        rep.violation("models-ratio-wrong", format!("models({}, true) asked before any path query = {:?} but {} of {} assignments satisfy the function", t, m, sat, total), replay(format!("cold models({},true)", t)));
                        return;
                    }
                }
                Err(c) => {
                    rep.violation(&format!("models:{}", c.kind()), c.describe(), replay(format!("cold models({},true)", t)));
                    return;
                }
            }
        }
    }
    for t in &handles {
        let tt = facts.tt_of(*t);
        let sat = tt.count_ones() as u128;
        let unsat = total - sat;
        rep.count("handles_queried", 1);
        // paths
        for memo in [false, true] {
            match guarded(SMALL_BUDGET, || bdd.paths(*t, memo)) {
                Ok(p) => {
                    rep.count("path_counts_checked", 1);
                    if mc(p) != facts.paths[t.value()] {
                        rep.violation("paths-wrong", format!("paths({}, {}) = {:?}, walking the table gives (to bottom, to top) = {:?}", t, memo, p, facts.paths[t.value()]), replay(format!("paths({},{})", t, memo)));
                        return;
                    }
                }
                Err(c) => {
                    rep.violation(&format!("paths:{}", c.kind()), c.describe(), replay(format!("paths({},{})", t, memo)));
                    return;
                }
            }
        }
        // models: naive always, memoised where documented
        let memo_documented = !cfg!(feature = "adhoccounting") || cfg!(feature = "adhoccountmodels");
        let mut answers: Vec<ModelCounts> = Vec::new();
        for memo in [false, true] {
            if memo && !memo_documented {
                rep.count("memoised_model_counts_skipped_as_documented", 1);
                continue;
            }
            match guarded(SMALL_BUDGET, || bdd.models(*t, memo)) {
                Ok(m) => {
                    rep.count("model_counts_checked", 1);
                    let (c, mm) = mc(m);
                    if c + mm == 0 || mm * unsat != c * sat {
                        rep.violation("models-ratio-wrong", format!("models({}, {}) = {:?} but {} of {} assignments satisfy the function", t, memo, m, sat, total), replay(format!("models({},{})", t, memo)));
                        return;
                    }
                    if m.more_models() != (mm >= c) {
                        rep.violation("more-models-wrong", format!("{:?}.more_models() = {}", m, m.more_models()), replay(format!("more_models({})", t)));
                        return;
                    }
                    answers.push(m);
                }
                Err(c) => {
                    rep.violation(&format!("models:{}", c.kind()), c.describe(), replay(format!("models({},{})", t, memo)));
                    return;
                }
            }
        }
        if answers.len() == 2 && answers[0] != answers[1] {
            rep.violation("models-naive-vs-memo", format!("models({}, false) = {:?} but models({}, true) = {:?}", t, answers[0], t, answers[1]), replay(format!("models({})", t)));
            return;
        }
        // depth
        match guarded(SMALL_BUDGET, || bdd.max_depth(*t)) {
            Ok(d) => {
                rep.count("depths_checked", 1);
                if d != facts.depth[t.value()] {
                    rep.violation("max-depth-wrong", format!("max_depth({}) = {}, longest root-to-leaf path has {} tests", t, d, facts.depth[t.value()]), replay(format!("max_depth({})", t)));
                    return;
                }
            }
            Err(c) => {
                rep.violation(&format!("max_depth:{}", c.kind()), c.describe(), replay(format!("max_depth({})", t)));
                return;
            }
        }
        // dependency set = essential variables
        match guarded(SMALL_BUDGET, || bdd.var_dependencies(*t)) {
            Ok(set) => {
                rep.count("dependency_sets_checked", 1);
                let mut got: Vec<usize> = set.iter().map(|v| logical(v.value())).collect();
                got.sort_unstable();
                let want = tt.support();
                if got != want {
                    rep.violation("dependencies-wrong", format!("var_dependencies({}) = {:?}, the function depends on {:?}", t, got, want), replay(format!("var_dependencies({})", t)));
                    return;
                }
            }
            Err(c) => {
                rep.violation(&format!("var_dependencies:{}", c.kind()), c.describe(), replay(format!("var_dependencies({})", t)));
                return;
            }
        }
        // path cubes
        if !c13_cubes(rep, bdd, &facts, *t, nvars, &mut rng, &replay) {
            return;
        }
    }
    // impact measures on a random term list of length <= nvars (the list plays the role of an interpretation;
    // positions are variable numbers, so this only makes sense with dense numbering)
    if varmap_active() {
        return;
    }
    let len = rng.range(1, nvars);
    let list: Vec<Term> = (0..len).map(|_| *rng.pick(&handles)).collect();
    for v in 0..len {
        let want_passive = list.iter().filter(|t| facts.tt_of(**t).depends_on(v)).count();
        let want_active = (0..len).filter(|i| facts.tt_of(list[v]).depends_on(*i)).count();
        match guarded(SMALL_BUDGET, || (bdd.passive_var_impact(Var(v), &list), bdd.active_var_impact(Var(v), &list))) {
            Ok((p, a)) => {
                rep.count("impacts_checked", 2);
                if p != want_passive {
                    rep.violation("passive-impact-wrong", format!("passive_var_impact(Var({}), {:?}) = {}, {} members depend on it", v, list, p, want_passive), replay("passive_var_impact".into()));
                    return;
                }
                if a != want_active {
                    rep.violation("active-impact-wrong", format!("active_var_impact(Var({}), {:?}) = {}, member {} depends on {} of the first {} variables", v, list, a, v, want_active, len), replay("active_var_impact".into()));
                    return;
                }
            }
            Err(c) => {
                rep.violation(&format!("impact:{}", c.kind()), c.describe(), replay("var_impact".into()));
                return;
            }
        }
    }
}

fn c13_cubes(
    rep: &mut Report,
    bdd: &Bdd,
    facts: &NodeFacts,
    t: Term,
    nvars: usize,
    rng: &mut Rng,
    replay: &dyn Fn(String) -> Value,
) -> bool {
    let tt = facts.tt_of(t);
    // goal variables: all variables for small stores, a sample otherwise, plus one outside the store's variables
    let mut gvs: Vec<usize> = if nvars <= 5 {
        (0..nvars).collect()
    } else {
        (0..3).map(|_| rng.below(nvars)).collect()
    };
    gvs.push(nvars + 3);
    for gv in gvs {
        for goal in [false, true] {
            let what = format!("interpretations({}, {}, Var({}), [], [])", t, goal, gv);
            let cubes = match guarded(SMALL_BUDGET, || bdd.interpretations(t, goal, Var(actual(gv)), &[], &[])) {
                Ok(c) => c,
                Err(c) => {
                    rep.violation(&format!("interpretations:{}", c.kind()), c.describe(), replay(what));
                    return false;
                }
            };
            rep.count("cube_sets_checked", 1);
            rep.count("cubes_checked", cubes.len() as u64);
            if t.is_truth_value() {
                // pinned behaviour for constant handles: empty list
                continue;
            }
            // cubes as (mask, value) pairs; union as a truth table; pairwise disjoint
            let mut union = TT::constant(nvars, false);
            let mut covered = 0u64;
            for (neg, pos) in &cubes {
                let mut mask = 0usize;
                let mut val = 0usize;
                let neg: Vec<Var> = neg.iter().map(|v| Var(logical(v.value()))).collect();
                let pos: Vec<Var> = pos.iter().map(|v| Var(logical(v.value()))).collect();
                let (neg, pos) = (&neg, &pos);
                for v in neg {
                    if v.value() >= nvars || (mask >> v.value()) & 1 == 1 {
                        rep.violation("cube-malformed", format!("{}: cube {:?}/{:?} mentions a variable twice or out of range", what, neg, pos), replay(what.clone()));
                        return false;
                    }
                    mask |= 1 << v.value();
                }
                for v in pos {
                    if v.value() >= nvars || (mask >> v.value()) & 1 == 1 {
                        rep.violation("cube-malformed", format!("{}: cube {:?}/{:?} mentions a variable twice or out of range", what, neg, pos), replay(what.clone()));
                        return false;
                    }
                    mask |= 1 << v.value();
                    val |= 1 << v.value();
                }
                // documented: "it is ensured that the goal is consistent with the respective interpretation" -
                // a cube may leave the goal variable free, but must not fix it to the opposite value
                if gv < nvars && (mask >> gv) & 1 == 1 && ((val >> gv) & 1 == 1) != goal {
                    rep.violation(
                        "cube-contradicts-goal",
                        format!("{}: cube {:?}/{:?} fixes the goal variable to the opposite of the goal value", what, neg, pos),
                        replay(what.clone()),
                    );
                    return false;
                }
                let cube = TT::from_fn(nvars, |a| a & mask == val);
                covered += cube.count_ones();
                union = union.or(&cube);
            }
            if covered != union.count_ones() {
                rep.violation("cubes-overlap", format!("{}: the {} cubes are not pairwise disjoint", what, cubes.len()), replay(what.clone()));
                return false;
            }
            // where the goal variable has the goal value, the cubes cover exactly the (counter-)models
            let region = if gv < nvars {
                let x = TT::var(nvars, gv);
                if goal {
                    x
                } else {
                    x.not()
                }
            } else {
                TT::constant(nvars, true)
            };
            let want = if goal { tt.clone() } else { tt.not() };
            if union.and(&region) != want.and(&region) {
                rep.violation(
                    "cubes-cover-wrong",
                    format!("{}: union of cubes restricted to goal-variable = goal differs from the {} there", what, if goal { "models" } else { "counter-models" }),
                    replay(what.clone()),
                );
                return false;
            }
        }
    }
    true
}
