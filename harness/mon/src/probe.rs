//! C12: deterministic probe transcript. The same binary source is compiled under every feature set;
//! the driver compares the transcripts line by line with the default build's.

use crate::common::*;
use crate::pipes::*;
use crate::sem::{heuristic_by_name, small_case};
use adf_bdd::adf::Adf;
use adf_bdd::datatypes::{Term, Var};
use oracle::show_vals;
use serde_json::json;

pub fn feature_tag() -> String {
    let mut v = Vec::new();
    if cfg!(feature = "adhoccounting") {
        v.push("adhoccounting");
    }
    if cfg!(feature = "adhoccountmodels") {
        v.push("adhoccountmodels");
    }
    if cfg!(feature = "variablelist") {
        v.push("variablelist");
    }
    if cfg!(feature = "frontend") {
        v.push("frontend");
    }
    if v.is_empty() {
        "none".into()
    } else {
        v.join("+")
    }
}

fn models_line(models: &[Vec<Term>]) -> String {
    models
        .iter()
        .map(|m| show_vals(&m.iter().map(term_val).collect::<Vec<_>>()))
        .collect::<Vec<_>>()
        .join(",")
}

/// run the probe; lines are `key \t value`. Keys starting with `memo_models` are the documented exception.
pub fn probe(cfg: &Cfg, rep: &mut Report) {
    let mut lines: Vec<String> = Vec::new();
    let nm = cfg.get_usize("nmax", 5);
    for i in 0..cfg.cases {
        let case_seed = cfg.case_seed(i);
        let case = small_case(case_seed, nm);
        rep.evaluations += 1;
        let n = case.g.n;
        let sort = SORTS[i % 3];
        let o = match build(&case.text, sort, case.bio_ok) {
            Ok(o) => o,
            Err(e) => {
                lines.push(format!("case{}.build\tERROR {}", i, e.describe()));
                continue;
            }
        };
        let mut emit = |key: &str, f: &mut dyn FnMut() -> String| {
            let v = match guarded(SMALL_BUDGET, || f()) {
                Ok(s) => s,
                Err(c) => format!("ERROR {}", c.describe()),
            };
            lines.push(format!("case{}.{}\t{}", i, key, v.replace('\n', " ")));
        };
        let backs: Vec<Backend> = if case.bio_ok {
            vec![Backend::Native, Backend::HybridPre, Backend::HybridNoPre]
        } else {
            vec![Backend::Native]
        };
        for b in &backs {
            let mk = || -> Adf { fresh_adf(&o, *b).unwrap() };
            let bn = b.name();
            emit(&format!("{}.grounded", bn), &mut || models_line(&[mk().grounded()]));
            emit(&format!("{}.complete", bn), &mut || models_line(&mk().complete().collect::<Vec<_>>()));
            emit(&format!("{}.stable", bn), &mut || models_line(&mk().stable().collect::<Vec<_>>()));
            emit(&format!("{}.prefilter", bn), &mut || models_line(&mk().stable_with_prefilter().collect::<Vec<_>>()));
            emit(&format!("{}.count_a", bn), &mut || models_line(&mk().stable_count_optimisation_heu_a().collect::<Vec<_>>()));
            emit(&format!("{}.count_b", bn), &mut || models_line(&mk().stable_count_optimisation_heu_b().collect::<Vec<_>>()));
            for h in ["Simple", "MinModMinPathsMaxVarImp", "MinModMaxVarImpMinPaths", "Rand"] {
                emit(&format!("{}.nogood.{}", bn, h), &mut || {
                    let mut a = mk();
                    a.seed([7u8; 32]);
                    models_line(&a.stable_nogood(heuristic_by_name(h)).collect::<Vec<_>>())
                });
            }
            emit(&format!("{}.twoval", bn), &mut || {
                let mut a = mk();
                let (s, r) = crossbeam_channel::unbounded();
                a.two_val_nogood_channel(heuristic_by_name("Simple"), s);
                models_line(&r.iter().collect::<Vec<_>>())
            });
            // diagram queries on the acceptance conditions
            emit(&format!("{}.formulacounts", bn), &mut || format!("{:?}", mk().formulacounts(false)));
            emit(&format!("memo_models.{}.formulacounts", bn), &mut || format!("{:?}", mk().formulacounts(true)));
            emit(&format!("{}.facet_count", bn), &mut || {
                let mut a = mk();
                let g = a.grounded();
                format!("{:?}", a.facet_count(&g))
            });
            // depth of every condition on a fresh object, before any counting query (uncached code path)
            emit(&format!("{}.cold_depths", bn), &mut || {
                let a = mk();
                a.ac.iter().map(|t| a.bdd.max_depth(*t).to_string()).collect::<Vec<_>>().join(",")
            });
            let mut a = mk();
            let acs = a.ac.clone();
            for (j, t) in acs.iter().enumerate() {
                let t = *t;
                emit(&format!("{}.ac{}.paths", bn, j), &mut || format!("{:?}/{:?}", a.bdd.paths(t, false), a.bdd.paths(t, true)));
                emit(&format!("{}.ac{}.models", bn, j), &mut || format!("{:?}", a.bdd.models(t, false)));
                emit(&format!("memo_models.{}.ac{}.models", bn, j), &mut || format!("{:?}", a.bdd.models(t, true)));
                emit(&format!("{}.ac{}.depth", bn, j), &mut || format!("{}", a.bdd.max_depth(t)));
                emit(&format!("{}.ac{}.deps", bn, j), &mut || {
                    let mut d: Vec<usize> = a.bdd.var_dependencies(t).iter().map(|v| v.value()).collect();
                    d.sort_unstable();
                    format!("{:?}", d)
                });
                emit(&format!("{}.ac{}.impacts", bn, j), &mut || {
                    format!("{}/{}", a.bdd.passive_var_impact(Var(j), &acs), a.bdd.active_var_impact(Var(j), &acs))
                });
                emit(&format!("{}.ac{}.cubes", bn, j), &mut || {
                    format!(
                        "{:?}|{:?}",
                        a.bdd.interpretations(t, true, Var(j), &[], &[]),
                        a.bdd.interpretations(t, false, Var((j + 1) % n), &[], &[])
                    )
                });
                emit(&format!("{}.ac{}.restrict", bn, j), &mut || {
                    let mut out = Vec::new();
                    for v in 0..n {
                        for val in [false, true] {
                            let r = a.bdd.restrict(t, Var(v), val);
                            out.push(tt_of(&a.bdd.nodes, r, n).map(|x| x.hex()).unwrap_or_else(|e| e));
                        }
                    }
                    out.join(",")
                });
            }
            emit(&format!("{}.depth_after_queries", bn), &mut || {
                acs.iter().map(|t| a.bdd.max_depth(*t).to_string()).collect::<Vec<_>>().join(",")
            });
        }
        rep.nontrivial.insert(hash_str(&case.g.structure_key()));
    }
    rep.count("probe_lines", lines.len() as u64);
    rep.sample(json!({"features": feature_tag(), "first_lines": lines.iter().take(3).collect::<Vec<_>>()}));
    if let Some(path) = cfg.get("probe_out") {
        std::fs::write(path, lines.join("\n")).expect("write probe transcript");
    }
}
