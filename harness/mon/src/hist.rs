//! C11 (cache transparency, handle stability, determinism) and C14 (persistence round trips):
//! long call histories on one object, compared call by call with fresh objects, twins and imports.

use crate::bddmon::{full_audit, AuditCounts};
use crate::common::*;
use crate::pipes::*;
use crate::sem::{heuristic_by_name, small_case, SmallCase};
use adf_bdd::adf::Adf;
use adf_bdd::datatypes::adf::VarContainer;
use adf_bdd::datatypes::{BddNode, Term, Var};
use adf_bdd::obdd::Bdd;
use oracle::{show_vals, Rng, Val};
use serde_json::json;
use std::collections::HashMap;
use std::sync::{Arc, RwLock};

#[derive(Clone, Debug)]
pub enum Call {
    Grounded,
    Complete,
    Stable,
    Prefilter,
    CountA,
    CountB,
    Nogood(&'static str, NgMode),
    Rewrite(bool),
    FormulaCounts(bool),
    FacetCount,
    Models(usize, bool),
    Paths(usize, bool),
    Depth(usize),
    Deps(usize),
    Passive(usize),
    Active(usize),
    Cubes(usize, bool, usize),
    /// extra formula built directly on the shared diagram: (kind, operand a, operand b, var, val)
    Extra(usize, usize, usize, usize, bool),
    /// the documented repair step, called although nothing was imported (a public API call like any other)
    FixImport,
}

const BUILTIN_HEUS: [&str; 4] = ["Simple", "MinModMinPathsMaxVarImp", "MinModMaxVarImpMinPaths", "Rand"];

fn random_call(rng: &mut Rng, n: usize, handles: usize, bio: bool) -> Call {
    match rng.below(30) {
        0 | 1 => Call::Grounded,
        2 | 3 => Call::Complete,
        4 | 5 => Call::Stable,
        6 => Call::Prefilter,
        7 => Call::CountA,
        8 => Call::CountB,
        9..=11 => Call::Nogood(
            *rng.pick(&BUILTIN_HEUS),
            *rng.pick(&[NgMode::StableIter, NgMode::StableChannel, NgMode::TwoValChannel]),
        ),
        12 if bio => Call::Rewrite(rng.bool()),
        12 => Call::Stable,
        13 => Call::FormulaCounts(rng.bool()),
        14 => Call::FacetCount,
        15 => Call::Models(rng.below(handles), rng.bool()),
        16 => Call::Paths(rng.below(handles), rng.bool()),
        17 => Call::Depth(rng.below(handles)),
        18 => Call::Deps(rng.below(handles)),
        19 => Call::Passive(rng.below(n)),
        20 => Call::Active(rng.below(n)),
        21 => Call::Cubes(rng.below(handles), rng.bool(), rng.below(n)),
        22 if rng.chance(1, 3) => Call::FixImport,
        _ => Call::Extra(rng.below(7), rng.below(handles), rng.below(handles), rng.below(n), rng.bool()),
    }
}

#[derive(Clone, Debug, PartialEq, Eq)]
pub struct Ans {
    /// exact rendering (handles included): must repeat under identical histories
    pub exact: String,
    /// history independent rendering (truth values, truth tables, sorted sets)
    pub canon: String,
}

/// an object under test with its extra handles
pub struct Live {
    pub adf: Adf,
    /// ac handles followed by results of extra formulas
    pub handles: Vec<Term>,
}

impl Live {
    pub fn new(adf: Adf) -> Live {
        let handles = adf.ac.clone();
        Live { adf, handles }
    }
}

fn models_ans(models: &[Vec<Term>], perm: &[usize], keep_first: bool) -> Ans {
    let vals: Vec<Vec<Val>> = to_vals_set(models, perm);
    // information level, ORDER KEPT: the sequence in which models are delivered is observable
    // (the CLI prints in this order) and must not depend on the history of the object either
    let strs: Vec<String> = vals.iter().map(|v| show_vals(v)).collect();
    let _ = keep_first;
    Ans {
        exact: format!("{:?}", models),
        canon: format!("{:?}", strs),
    }
}

fn memo_documented() -> bool {
    !cfg!(feature = "adhoccounting") || cfg!(feature = "adhoccountmodels")
}

/// perform one call. `seed` re-seeds the object's generator before calls that use Rand.
pub fn perform(live: &mut Live, call: &Call, o: &Objs, perm: &[usize], n: usize, rand_seed: [u8; 32]) -> Ans {
    let adf = &mut live.adf;
    match call {
        Call::Grounded => {
            let g = adf.grounded();
            models_ans(&[g], perm, false)
        }
        Call::Complete => {
            let m: Vec<_> = adf.complete().collect();
            models_ans(&m, perm, true)
        }
        Call::Stable => {
            let m: Vec<_> = adf.stable().collect();
            models_ans(&m, perm, false)
        }
        Call::Prefilter => {
            let m: Vec<_> = adf.stable_with_prefilter().collect();
            models_ans(&m, perm, false)
        }
        Call::CountA => {
            let m: Vec<_> = adf.stable_count_optimisation_heu_a().collect();
            models_ans(&m, perm, false)
        }
        Call::CountB => {
            let m: Vec<_> = adf.stable_count_optimisation_heu_b().collect();
            models_ans(&m, perm, false)
        }
        Call::Nogood(h, mode) => {
            if *h == "Rand" {
                adf.seed(rand_seed);
            }
            let heu = heuristic_by_name(h);
            let m: Vec<Vec<Term>> = match mode {
                NgMode::StableIter => adf.stable_nogood(heu).collect(),
                NgMode::StableChannel => {
                    let (s, r) = crossbeam_channel::unbounded();
                    adf.stable_nogood_channel(heu, s);
                    r.iter().collect()
                }
                NgMode::TwoValChannel => {
                    let (s, r) = crossbeam_channel::unbounded();
                    adf.two_val_nogood_channel(heu, s);
                    r.iter().collect()
                }
            };
            models_ans(&m, perm, false)
        }
        Call::Rewrite(rw) => {
            let bio = if *rw { o.bio_rw.as_ref() } else { o.bio.as_ref() }.expect("bio objects present");
            let m = adf.stable_bdd_representation(bio);
            models_ans(&m, perm, false)
        }
        Call::FormulaCounts(memo) => {
            if *memo && !memo_documented() {
                return Ans { exact: "skipped".into(), canon: "skipped".into() };
            }
            let c = adf.formulacounts(*memo);
            // per statement, in oracle order
            let mut by: Vec<(usize, String)> = c.iter().enumerate().map(|(j, m)| (perm[j], format!("{:?}", m))).collect();
            by.sort();
            let s = format!("{:?}", by);
            Ans { exact: s.clone(), canon: s }
        }
        Call::FacetCount => {
            let g = adf.grounded();
            let c = adf.facet_count(&g);
            let mut by: Vec<(usize, String)> = c.iter().enumerate().map(|(j, m)| (perm[j], format!("{:?}", m))).collect();
            by.sort();
            let s = format!("{:?}", by);
            Ans { exact: s.clone(), canon: s }
        }
        Call::Models(h, memo) => {
            if *memo && !memo_documented() {
                return Ans { exact: "skipped".into(), canon: "skipped".into() };
            }
            let s = format!("{:?}", adf.bdd.models(live.handles[*h], *memo));
            Ans { exact: s.clone(), canon: s }
        }
        Call::Paths(h, memo) => {
            let s = format!("{:?}", adf.bdd.paths(live.handles[*h], *memo));
            Ans { exact: s.clone(), canon: s }
        }
        Call::Depth(h) => {
            let s = format!("{}", adf.bdd.max_depth(live.handles[*h]));
            Ans { exact: s.clone(), canon: s }
        }
        Call::Deps(h) => {
            let mut d: Vec<usize> = adf.bdd.var_dependencies(live.handles[*h]).iter().map(|v| perm[v.value()]).collect();
            d.sort_unstable();
            let s = format!("{:?}", d);
            Ans { exact: s.clone(), canon: s }
        }
        Call::Passive(v) => {
            let s = format!("{}", adf.bdd.passive_var_impact(Var(*v), &adf.ac));
            Ans { exact: s.clone(), canon: s }
        }
        Call::Active(v) => {
            let s = format!("{}", adf.bdd.active_var_impact(Var(*v), &adf.ac));
            Ans { exact: s.clone(), canon: s }
        }
        Call::Cubes(h, goal, gv) => {
            let c = adf.bdd.interpretations(live.handles[*h], *goal, Var(*gv), &[], &[]);
            let s = format!("{:?}", c);
            Ans { exact: s.clone(), canon: s }
        }
        Call::FixImport => {
            adf.fix_import();
            Ans { exact: "()".into(), canon: "()".into() }
        }
        Call::Extra(kind, a, b, v, val) => {
            let (ta, tb) = (live.handles[*a], live.handles[*b]);
            let r = match kind {
                0 => adf.bdd.and(ta, tb),
                1 => adf.bdd.or(ta, tb),
                2 => adf.bdd.xor(ta, tb),
                3 => adf.bdd.iff(ta, tb),
                4 => adf.bdd.imp(ta, tb),
                5 => adf.bdd.not(ta),
                _ => adf.bdd.restrict(ta, Var(*v), *val),
            };
            live.handles.push(r);
            let tt = tt_of(&adf.bdd.nodes, r, n).map(|t| t.hex()).unwrap_or_else(|e| e);
            Ans { exact: format!("{}", r), canon: tt }
        }
    }
}

/// order-free form of an ordered model list rendering (for the comparison with the definition)
fn set_form(canon: &str, keep_first: bool) -> String {
    let list: Vec<String> = serde_json::from_str(canon).unwrap_or_default();
    let first = list.first().cloned().unwrap_or_default();
    let mut sorted = list;
    sorted.sort();
    if keep_first {
        format!("first={} set={:?}", first, sorted)
    } else {
        format!("{:?}", sorted)
    }
}

/// what the oracle says about a semantics call (None for calls the oracle does not cover)
fn oracle_canon(case: &SmallCase, call: &Call) -> Option<String> {
    let set = |mut v: Vec<Vec<Val>>| {
        v.sort();
        let mut s: Vec<String> = v.iter().map(|m| show_vals(m)).collect();
        s.sort();
        format!("{:?}", s)
    };
    match call {
        Call::Grounded => Some(set(vec![case.sem.grounded()])),
        Call::Complete => {
            let g = show_vals(&case.sem.grounded());
            let mut s: Vec<String> = case.sem.complete().iter().map(|m| show_vals(m)).collect();
            s.sort();
            Some(format!("first={} set={:?}", g, s))
        }
        Call::Stable | Call::Prefilter | Call::CountA | Call::CountB | Call::Rewrite(_) => Some(set(case.sem.stable())),
        Call::Nogood(_, NgMode::TwoValChannel) => Some(set(case.sem.two_valued())),
        Call::Nogood(_, _) => Some(set(case.sem.stable())),
        _ => None,
    }
}

fn fresh_live(o: &Objs, backend: Backend) -> Live {
    Live::new(fresh_adf(o, backend).expect("native representation"))
}

fn rand_seed_for(case_seed: u64, idx: usize) -> [u8; 32] {
    let mut r = Rng::new(case_seed ^ (idx as u64).wrapping_mul(977));
    let mut s = [0u8; 32];
    for b in s.iter_mut() {
        *b = r.below(256) as u8;
    }
    s
}

/// the string encoded rebuild the web service's storage layer performs
pub fn rebuild_like_server(adf: &Adf) -> Adf {
    let names: Vec<String> = adf.ordering.names().read().unwrap().clone();
    let mapping: HashMap<String, String> = adf
        .ordering
        .mappings()
        .read()
        .unwrap()
        .iter()
        .map(|(k, v)| (k.clone(), v.to_string()))
        .collect();
    let nodes: Vec<(String, String, String)> = adf
        .bdd
        .nodes
        .iter()
        .map(|n| (n.var().0.to_string(), n.lo().0.to_string(), n.hi().0.to_string()))
        .collect();
    let ac: Vec<String> = adf.ac.iter().map(|t| t.0.to_string()).collect();
    // through JSON text, as documents travel through the database
    let doc = serde_json::to_string(&(names, mapping, nodes, ac)).expect("encode");
    #[allow(clippy::type_complexity)]
    let (names, mapping, nodes, ac): (Vec<String>, HashMap<String, String>, Vec<(String, String, String)>, Vec<String>) =
        serde_json::from_str(&doc).expect("decode");
    let vc = VarContainer::from_parser(
        Arc::new(RwLock::new(names)),
        Arc::new(RwLock::new(mapping.into_iter().map(|(k, v)| (k, v.parse().unwrap())).collect())),
    );
    let bdd = Bdd::from(
        nodes
            .into_iter()
            .map(|(v, l, h)| BddNode::new(Var(v.parse().unwrap()), Term(l.parse().unwrap()), Term(h.parse().unwrap())))
            .collect::<Vec<BddNode>>(),
    );
    Adf::from((vc, bdd, ac.into_iter().map(|t| Term(t.parse().unwrap())).collect()))
}

pub fn c11(cfg: &Cfg, rep: &mut Report) {
    for i in 0..cfg.cases {
        if rep.too_many() {
            break;
        }
        history_case(cfg, rep, cfg.case_seed(i), false);
    }
}

pub fn c14(cfg: &Cfg, rep: &mut Report) {
    for i in 0..cfg.cases {
        if rep.too_many() {
            break;
        }
        history_case(cfg, rep, cfg.case_seed(i), true);
    }
    let big = cfg.get_usize("big_roundtrips", (cfg.cases / 100).max(if cfg.cases > 0 { 3 } else { 0 }));
    for i in 0..big {
        if rep.too_many() {
            break;
        }
        c14_big(cfg, rep, cfg.case_seed(7_000_000 + i));
    }
}

/// Round trips of big frameworks: 30 to 60 statements with random conditions (grounded interpretation known from
/// the support-bounded oracle), or 64 to 90 statements of which one or two have a conjunction / disjunction chain
/// over (nearly) all others as condition, i.e. diagrams more than 64 levels tall. Exported fresh or after the
/// grounded interpretation has been computed; judged: numbering, roots, names, audit of the repaired tables,
/// and the grounded interpretation of original, imported and rebuilt object (equal, and equal to the oracle's
/// where it is available).
fn c14_big(_cfg: &Cfg, rep: &mut Report, case_seed: u64) {
    let mut rng = Rng::new(case_seed ^ 0xB14);
    let tall = rng.chance(1, 2);
    let (g, text, want_grounded): (oracle::gen::GenAdf, String, Option<Vec<Val>>) = if tall {
        let g = oracle::gen::gen_tall(&mut rng);
        let text = g.canonical();
        let want = oracle::gen::tall_grounded(&g);
        (g, text, Some(want))
    } else if rng.bool() {
        let (g, text, sem) = crate::sem::large_case(case_seed);
        let (gr, _) = sem.grounded_rounds();
        (g, text, Some(gr))
    } else {
        let m = crate::sem::mid_case(case_seed, false);
        (m.g, m.text, Some(m.grounded))
    };
    // the other semantics by definition, among the refinements of the grounded interpretation (few statements undecided)
    let want_models: Option<(Vec<Vec<Val>>, Vec<Vec<Val>>)> = if tall {
        None
    } else {
        let sem = oracle::sem::BigSem::new(&g.ac);
        match (sem.complete(8), sem.stable(12)) {
            (Some(c), Some(s)) => Some((sorted(c), sorted(s))),
            _ => None,
        }
    };
    rep.evaluations += 1;
    rep.count(if tall { "big_roundtrips_tall" } else { "big_roundtrips_random" }, 1);
    rep.max("max_statements_in_a_roundtrip", g.n as u64);
    let replay = |note: &str| json!({"property": "c14", "case_seed": case_seed.to_string(), "big_roundtrip": true, "tall": tall, "statements": g.n, "note": note,
        "adf": if text.len() < 6000 { text.clone() } else { format!("{}...", text.chars().take(6000).collect::<String>()) }});
    let o = match build(&text, Sort::None, false) {
        Ok(o) => o,
        Err(e) => {
            let msg = e.describe();
            if tall && tall_abort_is_known(_cfg, rep, &msg, g.n, replay("build")) {
                return;
            }
            rep.violation("build-failed", msg, replay("build"));
            return;
        }
    };
    let Some(perm) = perm_of(&o.names, &g) else {
        rep.violation("names-not-a-permutation", "big round trip".into(), replay("names"));
        return;
    };
    let mut orig = match guarded(SMALL_BUDGET * 20, || fresh_adf(&o, Backend::Native).expect("native")) {
        Ok(a) => a,
        Err(c) => {
            rep.violation(&format!("history-start:{}", c.kind()), c.describe(), replay("compile"));
            return;
        }
    };
    let grounded_first = rng.bool();
    let mut g0: Option<Vec<Term>> = None;
    if grounded_first {
        match guarded(SMALL_BUDGET * 20, || orig.grounded()) {
            Ok(v) => g0 = Some(v),
            Err(c) => {
                rep.violation(&format!("history-call:{}", c.kind()), format!("grounded: {}", c.describe()), replay("grounded before export"));
                return;
            }
        }
    }
    rep.max("max_nodes_at_export", orig.bdd.nodes.len() as u64);
    let exported = guarded(SMALL_BUDGET * 20, || {
        let s = serde_json::to_string(&orig).expect("export");
        let mut a: Adf = serde_json::from_str(&s).expect("import");
        a.fix_import();
        let b = rebuild_like_server(&orig);
        (a, b)
    });
    let (a, b) = match exported {
        Ok(x) => x,
        Err(c) => {
            rep.violation(&format!("roundtrip:{}", c.kind()), format!("{} statements, tallest diagram {} levels: {}", g.n, orig.ac.iter().map(|t| orig.bdd.max_depth(*t)).max().unwrap_or(0), c.describe()), replay("export/import"));
            return;
        }
    };
    let mut counts = AuditCounts::default();
    let mut arng = rng.fork(5);
    let mut answers: Vec<(&str, Vec<Term>)> = Vec::new();
    match guarded(SMALL_BUDGET * 20, || orig.grounded()) {
        Ok(v) => {
            if let Some(prev) = &g0 {
                if *prev != v {
                    rep.violation("answer-depends-on-history", "grounded interpretation of a big framework changed when asked again".into(), replay("grounded twice"));
                    return;
                }
            }
            answers.push(("original", v));
        }
        Err(c) => {
            rep.violation(&format!("history-call:{}", c.kind()), format!("grounded: {}", c.describe()), replay("grounded"));
            return;
        }
    }
    for (name, mut obj) in [("serde", a), ("rebuild", b)] {
        rep.count(&format!("roundtrips_{}", name), 1);
        // (the original may have grown by the grounded call after the export: compare the exported prefix)
        let len = obj.bdd.nodes.len();
        if len > orig.bdd.nodes.len() || obj.bdd.nodes[..] != orig.bdd.nodes[..len] {
            rep.violation(&format!("roundtrip-numbering:{}", name), format!("{} round trip changed the node table", name), replay(name));
            return;
        }
        if obj.ac != orig.ac {
            rep.violation(&format!("roundtrip-roots:{}", name), format!("{} round trip changed the root handles", name), replay(name));
            return;
        }
        if *obj.ordering.names().read().unwrap() != o.names {
            rep.violation(&format!("roundtrip-names:{}", name), "names differ".into(), replay(name));
            return;
        }
        match harness(|| full_audit(&obj.bdd, g.n, &mut arng, &mut counts)) {
            Ok(Ok(_)) => {}
            Ok(Err(e)) => {
                rep.violation(&format!("roundtrip-audit:{}", name), e, replay(name));
                return;
            }
            Err(e) => rep.inconclusive.push(e),
        }
        match guarded(SMALL_BUDGET * 20, || obj.grounded()) {
            Ok(v) => answers.push((name, v)),
            Err(c) => {
                rep.violation(&format!("history-call:{}", c.kind()), format!("grounded on the {} copy: {}", name, c.describe()), replay(name));
                return;
            }
        }
        // every semantics answer of the copy equals the definition (hence the original's)
        if let Some((want_c, want_s)) = &want_models {
            let r = guarded(SMALL_BUDGET * 50, || {
                let c: Vec<Vec<Term>> = obj.complete().collect();
                let s: Vec<Vec<Term>> = obj.stable().collect();
                let ng: Vec<Vec<Term>> = obj.stable_nogood(adf_bdd::adf::heuristics::Heuristic::Simple).collect();
                let ca: Vec<Vec<Term>> = obj.stable_count_optimisation_heu_a().collect();
                (c, s, ng, ca)
            });
            match r {
                Ok((c, s, ng, ca)) => {
                    for (what, got, want) in [("complete", c, want_c), ("stable", s, want_s), ("stable_nogood", ng, want_s), ("stable_count_a", ca, want_s)] {
                        rep.count("imported_model_sets_compared_big", 1);
                        let got = sorted(to_vals_set(&got, &perm));
                        if got != *want {
                            rep.violation(
                                "imported-answer-differs",
                                format!("{} on the {} copy of a framework with {} statements: {:?}, the definition gives {:?}", what, name, g.n,
                                    got.iter().map(|m| show_vals(m)).collect::<Vec<_>>(), want.iter().map(|m| show_vals(m)).collect::<Vec<_>>()),
                                replay(name),
                            );
                            return;
                        }
                    }
                }
                Err(c) => {
                    rep.violation(&format!("history-call:{}", c.kind()), format!("models on the {} copy: {}", name, c.describe()), replay(name));
                    return;
                }
            }
        }
    }
    let first = to_vals(&answers[0].1, &perm);
    for (name, v) in &answers[1..] {
        let got = to_vals(v, &perm);
        rep.count("imported_answers_compared", 1);
        if got != first {
            rep.violation("imported-answer-differs", format!("grounded: original {} but {} copy {}", show_vals(&first), name, show_vals(&got)), replay(name));
            return;
        }
    }
    if let Some(want) = want_grounded {
        if first != want {
            rep.violation("history-answer-vs-oracle", format!("grounded of a big framework: {} but the least fixpoint is {}", show_vals(&first), show_vals(&want)), replay("oracle"));
            return;
        }
    }
    rep.nontrivial.insert(hash_str(&format!("bigrt{}", case_seed)));
}

pub fn history_case(cfg: &Cfg, rep: &mut Report, case_seed: u64, persistence: bool) {
    let nm = cfg.get_usize("nmax", if cfg.thorough { 7 } else { 5 });
    let case = small_case(case_seed, nm);
    let n = case.g.n;
    let mut rng = Rng::new(case_seed ^ 0xC11);
    let sort = *rng.pick(&SORTS);
    let backend = if case.bio_ok {
        *rng.pick(&[Backend::Native, Backend::Native, Backend::Bridged, Backend::HybridNoPre])
    } else {
        Backend::Native
    };
    rep.evaluations += 1;
    let prop = cfg.prop.clone();
    let replay = |calls: &[Call], note: &str| {
        json!({"property": prop, "case_seed": case_seed.to_string(), "adf": case.text, "sort": sort.name(), "backend": backend.name(),
            "note": note, "calls": calls.iter().map(|c| format!("{:?}", c)).collect::<Vec<_>>()})
    };
    let o = match build(&case.text, sort, case.bio_ok) {
        Ok(o) => o,
        Err(e) => {
            rep.violation("build-failed", e.describe(), replay(&[], "build"));
            return;
        }
    };
    let Some(perm) = perm_of(&o.names, &case.g) else {
        rep.violation("names-not-a-permutation", format!("{:?}", o.names), replay(&[], "names"));
        return;
    };
    // the call sequence is fixed up front (handles: n ac handles plus one per extra call)
    let ncalls = rng.range(if cfg.thorough { 20 } else { 12 }, if cfg.thorough { 60 } else { 30 });
    let mut calls: Vec<Call> = Vec::new();
    let mut handles = n;
    for _ in 0..ncalls {
        let c = random_call(&mut rng, n, handles, case.bio_ok);
        if matches!(c, Call::Extra(..)) {
            handles += 1;
        }
        calls.push(c);
    }
    // two long lived twins, plus (C14) imported copies created at a random point
    let mk = || guarded(SMALL_BUDGET, || fresh_live(&o, backend));
    let (mut live, mut twin) = match (mk(), mk()) {
        (Ok(a), Ok(b)) => (a, b),
        (Err(c), _) | (_, Err(c)) => {
            rep.violation(&format!("history-start:{}", c.kind()), c.describe(), replay(&[], "start"));
            return;
        }
    };
    let ac0 = live.adf.ac.clone();
    let nodes0 = live.adf.bdd.nodes.len();
    let import_at = if persistence { Some(rng.below(ncalls)) } else { None };
    let mut imported: Vec<(&'static str, Live)> = Vec::new();
    let mut counts = AuditCounts::default();
    let mut arng = rng.fork(5);
    let mut sem_kinds = std::collections::HashSet::new();
    for (idx, call) in calls.iter().enumerate() {
        let seed = rand_seed_for(case_seed, idx);
        if Some(idx) == import_at {
            // export / import (+ repair) and the server style rebuild of the object as it is now
            let exported = guarded(SMALL_BUDGET, || {
                let s = serde_json::to_string(&live.adf).expect("export");
                let mut a: Adf = serde_json::from_str(&s).expect("import");
                a.fix_import();
                let b = rebuild_like_server(&live.adf);
                (a, b)
            });
            let (a, b) = match exported {
                Ok(x) => x,
                Err(c) => {
                    rep.violation(&format!("roundtrip:{}", c.kind()), c.describe(), replay(&calls[..idx], "export/import"));
                    return;
                }
            };
            for (name, obj) in [("serde", a), ("rebuild", b)] {
                rep.count(&format!("roundtrips_{}", name), 1);
                if obj.bdd.nodes != live.adf.bdd.nodes {
                    rep.violation(
                        &format!("roundtrip-numbering:{}", name),
                        format!("{} round trip changed the node table ({} -> {} entries)", name, live.adf.bdd.nodes.len(), obj.bdd.nodes.len()),
                        replay(&calls[..idx], name),
                    );
                    return;
                }
                if obj.ac != live.adf.ac {
                    rep.violation(&format!("roundtrip-roots:{}", name), format!("{} round trip changed the root handles", name), replay(&calls[..idx], name));
                    return;
                }
                let obj_names = obj.ordering.names().read().unwrap().clone();
                if obj_names != o.names {
                    rep.violation(&format!("roundtrip-names:{}", name), format!("{:?} vs {:?}", obj_names, o.names), replay(&calls[..idx], name));
                    return;
                }
                match harness(|| full_audit(&obj.bdd, n, &mut arng, &mut counts)) {
                    Ok(Ok(_)) => {}
                    Ok(Err(e)) => {
                        rep.violation(&format!("roundtrip-audit:{}", name), e, replay(&calls[..idx], name));
                        return;
                    }
                    Err(e) => rep.inconclusive.push(e),
                }
                let mut l = Live::new(obj);
                l.handles = live.handles.clone();
                imported.push((name, l));
            }
            rep.max("max_nodes_at_export", live.adf.bdd.nodes.len() as u64);
            if live.adf.bdd.nodes.len() > nodes0 {
                rep.count("exports_after_table_growth", 1);
            }
        }
        let before = live.adf.bdd.nodes.clone();
        let r1 = guarded(SMALL_BUDGET, || perform(&mut live, call, &o, &perm, n, seed));
        let r2 = guarded(SMALL_BUDGET, || perform(&mut twin, call, &o, &perm, n, seed));
        rep.count("calls", 1);
        let (a1, a2) = match (r1, r2) {
            (Ok(a), Ok(b)) => (a, b),
            (Err(c), _) | (_, Err(c)) => {
                rep.violation(&format!("history-call:{}", c.kind()), format!("{:?}: {}", call, c.describe()), replay(&calls[..=idx], "call"));
                return;
            }
        };
        // determinism: identical histories give identical answers, order and handles included
        if a1.exact != a2.exact {
            rep.violation(
                "twin-runs-differ",
                format!("call #{} {:?}: {} vs {}", idx, call, a1.exact, a2.exact),
                replay(&calls[..=idx], "twin"),
            );
            return;
        }
        // handle stability
        if live.adf.ac != ac0 {
            rep.violation("roots-changed", format!("call #{} {:?} changed the stored acceptance conditions", idx, call), replay(&calls[..=idx], "ac"));
            return;
        }
        if live.adf.bdd.nodes.len() < before.len() || live.adf.bdd.nodes[..before.len()] != before[..] {
            rep.violation("node-prefix-changed", format!("call #{} {:?} modified existing entries of the node table", idx, call), replay(&calls[..=idx], "prefix"));
            return;
        }
        // cache transparency: same answer as a fresh object (which only replays the extra formulas)
        let fresh = guarded(SMALL_BUDGET, || {
            let mut f = fresh_live(&o, backend);
            for (j, c) in calls[..idx].iter().enumerate() {
                if matches!(c, Call::Extra(..)) {
                    perform(&mut f, c, &o, &perm, n, rand_seed_for(case_seed, j));
                }
            }
            perform(&mut f, call, &o, &perm, n, seed)
        });
        match fresh {
            Ok(f) => {
                rep.count("fresh_comparisons", 1);
                if f.canon != a1.canon {
                    rep.violation(
                        "answer-depends-on-history",
                        format!("call #{} {:?}: after the history {} but on a fresh object {}", idx, call, a1.canon, f.canon),
                        replay(&calls[..=idx], "fresh"),
                    );
                    return;
                }
            }
            Err(c) => {
                rep.violation(&format!("fresh-call:{}", c.kind()), format!("{:?}: {}", call, c.describe()), replay(&calls[..=idx], "fresh"));
                return;
            }
        }
        if let Some(want) = oracle_canon(&case, call) {
            rep.count("oracle_comparisons", 1);
            sem_kinds.insert(std::mem::discriminant(call));
            if want != set_form(&a1.canon, matches!(call, Call::Complete)) {
                rep.violation(
                    "history-answer-vs-oracle",
                    format!("call #{} {:?}: {} but the definition gives {}", idx, call, a1.canon, want),
                    replay(&calls[..=idx], "oracle"),
                );
                return;
            }
        }
        // imported objects keep answering like the original
        for (name, imp) in imported.iter_mut() {
            match guarded(SMALL_BUDGET, || perform(imp, call, &o, &perm, n, seed)) {
                Ok(a) => {
                    rep.count("imported_comparisons", 1);
                    if a.canon != a1.canon {
                        rep.violation(
                            &format!("imported-answer-differs:{}", name),
                            format!("call #{} {:?}: original {} but {} copy {}", idx, call, a1.canon, name, a.canon),
                            replay(&calls[..=idx], name),
                        );
                        return;
                    }
                }
                Err(c) => {
                    rep.violation(&format!("imported-call:{}:{}", name, c.kind()), format!("{:?}: {}", call, c.describe()), replay(&calls[..=idx], name));
                    return;
                }
            }
        }
        // audit of all private tables of the long lived object
        if idx % 4 == 3 || idx + 1 == calls.len() {
            rep.count("audits", 1);
            match harness(|| full_audit(&live.adf.bdd, n, &mut arng, &mut counts)) {
                Ok(Ok(_)) => {}
                Ok(Err(e)) => {
                    rep.violation("history-audit", format!("after call #{} {:?}: {}", idx, call, e), replay(&calls[..=idx], "audit"));
                    return;
                }
                Err(e) => rep.inconclusive.push(e),
            }
            for (name, imp) in imported.iter() {
                match harness(|| full_audit(&imp.adf.bdd, n, &mut arng, &mut counts)) {
                    Ok(Ok(_)) => {}
                    Ok(Err(e)) => {
                        rep.violation(&format!("imported-audit:{}", name), format!("after call #{} {:?}: {}", idx, call, e), replay(&calls[..=idx], name));
                        return;
                    }
                    Err(e) => rep.inconclusive.push(e),
                }
            }
        }
    }
    rep.count("audit.unique_entries", counts.unique);
    rep.count("audit.var_deps_entries", counts.var_deps);
    rep.count("audit.count_cache_entries", counts.count_cache);
    rep.count("audit.ite_memo_entries", counts.ite);
    rep.count("audit.restrict_memo_entries", counts.restrict);
    let growth = live.adf.bdd.nodes.len() as f64 / nodes0.max(1) as f64;
    rep.max("max_table_growth_percent", (growth * 100.0) as u64);
    if live.adf.bdd.nodes.len() - 2 >= 2 * (nodes0 - 2).max(1) && sem_kinds.len() >= 3 {
        rep.nontrivial.insert(hash_str(&format!("{}{:?}", case.g.structure_key(), calls)));
    }
    if rep.samples.len() < 2 {
        rep.sample(json!({"adf": case.text, "backend": backend.name(), "calls": calls.iter().map(|c| format!("{:?}", c)).collect::<Vec<_>>()}));
    }
}
