//! C08 (parser) and C09 (compilation preserves every acceptance condition).

use crate::bddmon::{audit_private, audit_structure, AuditCounts, NodeFacts};
use crate::common::*;
use crate::pipes::*;
use crate::sem::large_case;
use adf_bdd::adf::Adf;
use adf_bdd::datatypes::Term;
use adf_bdd::parser::{AdfParser, Formula};
use oracle::gen::{gen_adf, spell, Fact, GenAdf, LabelMode};
use oracle::grammar::{self, PF};
use oracle::sem::BigSem;
use oracle::{Rng, Val, F, VF, VT, VU};
use serde_json::{json, Value};

fn formula_to_pf(f: &Formula) -> PF {
    match f {
        Formula::Top => PF::Top,
        Formula::Bot => PF::Bot,
        Formula::Atom(a) => PF::Atom(a.to_string()),
        Formula::Not(a) => PF::Not(Box::new(formula_to_pf(a))),
        Formula::And(a, b) => PF::And(Box::new(formula_to_pf(a)), Box::new(formula_to_pf(b))),
        Formula::Or(a, b) => PF::Or(Box::new(formula_to_pf(a)), Box::new(formula_to_pf(b))),
        Formula::Imp(a, b) => PF::Imp(Box::new(formula_to_pf(a)), Box::new(formula_to_pf(b))),
        Formula::Xor(a, b) => PF::Xor(Box::new(formula_to_pf(a)), Box::new(formula_to_pf(b))),
        Formula::Iff(a, b) => PF::Iff(Box::new(formula_to_pf(a)), Box::new(formula_to_pf(b))),
    }
}

fn f_to_pf(f: &F, labels: &[String]) -> PF {
    match f {
        F::Top => PF::Top,
        F::Bot => PF::Bot,
        F::Atom(i) => PF::Atom(labels[*i].clone()),
        F::Not(a) => PF::Not(Box::new(f_to_pf(a, labels))),
        F::And(a, b) => PF::And(Box::new(f_to_pf(a, labels)), Box::new(f_to_pf(b, labels))),
        F::Or(a, b) => PF::Or(Box::new(f_to_pf(a, labels)), Box::new(f_to_pf(b, labels))),
        F::Imp(a, b) => PF::Imp(Box::new(f_to_pf(a, labels)), Box::new(f_to_pf(b, labels))),
        F::Xor(a, b) => PF::Xor(Box::new(f_to_pf(a, labels)), Box::new(f_to_pf(b, labels))),
        F::Iff(a, b) => PF::Iff(Box::new(f_to_pf(a, labels)), Box::new(f_to_pf(b, labels))),
    }
}

/// what the real parser reports for a text
struct LibParse {
    /// dictionary: label -> index, for all labels of interest
    dict: Vec<(String, Option<usize>)>,
    dict_size: usize,
    names: Vec<String>,
    formulas: Vec<PF>,
}

fn lib_parse(text: &str, labels: &[String]) -> Result<Result<LibParse, String>, Caught> {
    guarded(SMALL_BUDGET, || {
        let parser = AdfParser::default();
        match parser.parse()(text) {
            Ok((rem, _)) => {
                if !rem.is_empty() {
                    return Err(format!("Ok with remainder {:?}", rem));
                }
            }
            Err(e) => return Err(format!("{}", e)),
        }
        let mut formulas = Vec::new();
        let mut i = 0;
        while let Some(f) = parser.ac_at(i) {
            formulas.push(formula_to_pf(&f));
            i += 1;
        }
        let vc = parser.var_container();
        let names = vc.names().read().unwrap().clone();
        Ok(LibParse {
            dict: labels.iter().map(|l| (l.clone(), parser.dict_value(l))).collect(),
            dict_size: parser.dict_size(),
            names,
            formulas,
        })
    })
}

fn deep_formula(rng: &mut Rng, atoms: &[usize], depth: usize) -> F {
    // a spine of the requested depth with small random side formulas
    let mut f = F::random(rng, atoms, 1);
    for _ in 0..depth {
        let side = F::random(rng, atoms, 1);
        f = match rng.below(8) {
            0 | 1 => F::not(f),
            2 => F::and(f, side),
            3 => F::and(side, f),
            4 => F::or(side, f),
            5 => F::xor(f, side),
            6 => F::iff(side, f),
            _ => F::imp(f, side),
        };
    }
    f
}

pub fn c08(cfg: &Cfg, rep: &mut Report) {
    for i in 0..cfg.cases {
        if rep.too_many() {
            break;
        }
        c08_case(cfg, rep, cfg.case_seed(i));
    }
    let big = cfg.get_usize("big_files", if cfg.thorough { 2 } else if cfg.shard < 6 && !cfg.flag("trace_log") { 1 } else { 0 });
    for i in 0..big {
        if rep.too_many() {
            break;
        }
        c08_big(cfg, rep, cfg.case_seed(5_000_000 + i), i);
    }
}

/// big files: hundreds to tens of thousands of statements (beyond every 8 and 16 bit counter), long labels,
/// numbers beyond the machine word; every formula small. Same judgement as for the small positives; the
/// native compile is checked by sampling for the moderately big ones.
fn c08_big(cfg: &Cfg, rep: &mut Report, case_seed: u64, idx: usize) {
    let mut rng = Rng::new(case_seed ^ 0xB08);
    let n = cfg.get_usize(
        "big_n",
        if cfg.thorough && cfg.shard == 0 && idx == 0 {
            140_000
        } else if cfg.thorough {
            rng.range(257, 5000)
        } else if cfg.shard == 0 {
            66_000
        } else if cfg.shard == 1 {
            rng.range(1000, 5000)
        } else {
            rng.range(257, 700)
        },
    );
    let mode = rng.below(4);
    let labels: Vec<String> = (0..n)
        .map(|i| match mode {
            0 => format!("st{}", i),
            // decimal numbers, many of them beyond 64 bits, some with leading zeros
            1 => {
                if i % 3 == 0 {
                    format!("{}", 18446744073709551616u128 + (i as u128) * 1_000_000_007)
                } else if i % 3 == 1 {
                    format!("00{}", i)
                } else {
                    format!("{}", i)
                }
            }
            // long quoted labels (300 to 600 characters) with blanks and brackets
            2 => format!("{} ({})", "long label ".repeat(28 + i % 27), i),
            _ => format!("{}{}", ["and", "or", "neg", "c", "imp", "xor", "iff", "s", "ac"][i % 9], i),
        })
        .collect();
    let ac: Vec<F> = (0..n)
        .map(|_| {
            let k = rng.range(1, 3);
            let atoms: Vec<usize> = (0..k).map(|_| rng.below(n)).collect();
            let d = rng.range(0, 3);
            F::random(&mut rng, &atoms, d)
        })
        .collect();
    let g = GenAdf { n, labels, ac, family: "big-file" };
    let r = g.render(&mut rng, true);
    rep.evaluations += 1;
    rep.count("big_files", 1);
    rep.max("max_statements_in_one_file", n as u64);
    rep.max("max_text_bytes", r.text.len() as u64);
    rep.max("max_label_bytes", g.labels.iter().map(|l| l.len()).max().unwrap_or(0) as u64);
    let replay = json!({"property": "c08", "case_seed": case_seed.to_string(), "big_file": true, "statements": n, "label_mode": mode, "shard": cfg.shard, "index": idx});
    if !positive_parse_check(rep, &g, &r, &replay, false) {
        return;
    }
    rep.nontrivial.insert(hash_str(&format!("big{}", case_seed)));
    if n > 5000 {
        return;
    }
    match build(&r.text, Sort::None, false) {
        Ok(o) => {
            let pos: std::collections::HashMap<&String, usize> = g.labels.iter().enumerate().map(|(i, l)| (l, i)).collect();
            let perm: Option<Vec<usize>> = o.names.iter().map(|nm| pos.get(nm).copied()).collect();
            let Some(perm) = perm else {
                rep.violation("names-not-a-permutation", "big file".into(), replay);
                return;
            };
            if let Err(e) = check_functions_sampled(&o.native, &g, &perm, None, &mut rng, 6, rep) {
                rep.violation("parser-compiled-function-differs", e, replay);
                return;
            }
            rep.count("compiled_adfs_checked", 1);
        }
        Err(e) => rep.violation("parser-positive-build", e.describe(), replay),
    }
}

/// a generated positive: the independent recogniser agrees, the library accepts it, statement order, dictionary
/// and every formula are the ones written. `false` = stop judging this case (something was reported).
fn positive_parse_check(rep: &mut Report, g: &GenAdf, r: &oracle::gen::Rendered, replay: &Value, _sample: bool) -> bool {
    let n = g.n;
    let replay = replay.clone();
    // the independent recogniser must agree that this is in the language
    let rec = match grammar::recognise(&r.text) {
        Ok(p) => p,
        Err(e) => {
            rep.count("generator_recogniser_disagreements", 1);
            rep.inconclusive.push(format!("recogniser rejects generated positive ({}): {:?}", e, r.text));
            return false;
        }
    };
    // expected formulas in file order
    let expected: Vec<(usize, PF)> = r
        .facts
        .iter()
        .filter_map(|f| match f {
            Fact::Ac(i) => Some((*i, f_to_pf(&g.ac[*i], &g.labels))),
            _ => None,
        })
        .collect();
    let decl: Vec<String> = r.decl_order.iter().map(|i| g.labels[*i].clone()).collect();
    if rec.statements != decl || rec.acs.iter().map(|(_, f)| f).ne(expected.iter().map(|(_, f)| f)) {
        rep.inconclusive.push(format!("recogniser and generator disagree on the content of {:?}", r.text));
        return false;
    }
    let kinds: u32 = g.ac.iter().map(|f| f.kinds()).fold(0, |a, b| a | b);
    if (kinds >> 3).count_ones() >= 3 && g.special_labels() >= 1 {
        rep.nontrivial.insert(hash_str(&r.text));
    }
    if rep.samples.len() < 3 && r.text.len() < 400 {
        rep.sample(json!({"positive": r.text}));
    }
    match lib_parse(&r.text, &g.labels) {
        Err(c) => {
            rep.violation(&format!("parser-positive:{}", c.kind()), format!("{} on {:?}", c.describe(), r.text), replay);
            return false;
        }
        Ok(Err(e)) => {
            rep.violation("parser-rejects-valid-input", format!("{} for {:?}", e, r.text), replay);
            return false;
        }
        Ok(Ok(lp)) => {
            rep.count("positives_accepted", 1);
            if lp.names != decl || lp.dict_size != n {
                rep.violation("parser-dictionary-order", format!("names {:?}, first-declaration order {:?}", lp.names, decl), replay);
                return false;
            }
            let pos_of: std::collections::HashMap<&String, usize> = decl.iter().enumerate().map(|(i, l)| (l, i)).collect();
            for (l, idx) in &lp.dict {
                if *idx != pos_of.get(l).copied() {
                    rep.violation("parser-dictionary-value", format!("dict_value({:?}) = {:?}", l, idx), replay);
                    return false;
                }
            }
            if lp.formulas.len() != expected.len() {
                rep.violation("parser-formula-count", format!("{} formulas for {} ac facts", lp.formulas.len(), expected.len()), replay);
                return false;
            }
            for (k, (st, want)) in expected.iter().enumerate() {
                rep.count("formulas_compared", 1);
                if lp.formulas[k] != *want {
                    rep.violation(
                        "parser-ast-differs",
                        format!("formula #{} (statement {:?}): parsed {:?}, written {:?}", k, g.labels[*st], lp.formulas[k], want),
                        replay,
                    );
                    return false;
                }
            }
        }
    }
    true
}

pub fn c08_case(cfg: &Cfg, rep: &mut Report, case_seed: u64) {
    let mut rng = Rng::new(case_seed);
    let n = rng.range(1, 7);
    let mut g = gen_adf(&mut rng, n, LabelMode::All);
    // some cases with deep nesting (bound: 200 levels)
    let deep = rng.chance(1, 8);
    if deep {
        let all: Vec<usize> = (0..n).collect();
        let s = rng.below(n);
        let d = rng.range(30, cfg.get_usize("max_depth", 200));
        g.ac[s] = deep_formula(&mut rng, &all, d);
        rep.max("max_nesting_depth", g.ac[s].depth() as u64);
    }
    let r = g.render(&mut rng, true);
    rep.evaluations += 1;
    let replay = json!({"property": "c08", "case_seed": case_seed.to_string(), "text": if r.text.len() < 3000 { r.text.clone() } else { format!("{}...", r.text.chars().take(3000).collect::<String>()) }});
    if !positive_parse_check(rep, &g, &r, &replay, true) {
        return;
    }
    // compiled handles denote the written functions (native compile only here; all pipelines in C09)
    if !deep || n <= 6 {
        match build(&r.text, Sort::None, false) {
            Ok(o) => {
                if let Some(perm) = perm_of(&o.names, &g) {
                    if let Err(e) = check_functions(&o.native, &g, &perm, None) {
                        rep.violation("parser-compiled-function-differs", e, replay);
                        return;
                    }
                    rep.count("compiled_adfs_checked", 1);
                }
            }
            Err(e) => {
                rep.violation("parser-positive-build", e.describe(), replay);
                return;
            }
        }
    }
    // every consumer of the parse result attaches each formula to the statement it was written for: all ways
    // to the stable models (native, biodivine, the rewriting prepared from the parser, hybrid), in declaration
    // order and re-sorted, against the definition (the C03 oracle on this layout of the file)
    if !deep && rng.chance(1, 4) {
        let case = crate::sem::SmallCase { sem: oracle::sem::Sem::new(&g.ac), bio_ok: g.bio_safe(), text: r.text.clone(), g: g.clone() };
        let before = rep.violations.len();
        crate::sem::c03_check(cfg, rep, case_seed, &case);
        rep.count("positives_followed_to_the_stable_models", 1);
        if rep.violations.len() > before {
            return;
        }
        // ... also when ONE parser object is instantiated, re-sorted and instantiated again (the parse result is
        // a long-lived object with public sort methods; every instantiation has to pair formulas and statements anew)
        if !crate::meta::reused_parser_check(rep, &case, &mut rng, case_seed) {
            return;
        }
        rep.count("positives_followed_through_a_resorted_parser", 1);
    }
    // negatives derived from this positive
    c08_negatives(rep, &g, &r.text, &mut rng, case_seed);
}

/// positions outside quoted labels
fn outside_quote_positions(text: &str, pred: impl Fn(char) -> bool) -> Vec<usize> {
    let mut res = Vec::new();
    let mut inq = false;
    for (i, c) in text.char_indices() {
        if c == '"' {
            inq = !inq;
        } else if !inq && pred(c) {
            res.push(i);
        }
    }
    res
}

fn c08_negatives(rep: &mut Report, g: &GenAdf, text: &str, rng: &mut Rng, case_seed: u64) {
    let mut mutants: Vec<(&'static str, String, bool)> = Vec::new(); // (class, text, unbalanced by construction)
    let brackets = outside_quote_positions(text, |c| c == '(' || c == ')');
    if !brackets.is_empty() {
        let p = *rng.pick(&brackets);
        let mut t = text.to_string();
        t.remove(p);
        mutants.push(("delete-bracket", t, true));
    }
    let anywhere = outside_quote_positions(text, |_| true);
    if !anywhere.is_empty() {
        let p = *rng.pick(&anywhere);
        let mut t = text.to_string();
        t.insert(p, if rng.bool() { '(' } else { ')' });
        mutants.push(("insert-bracket", t, true));
    }
    let dots = outside_quote_positions(text, |c| c == '.');
    if !dots.is_empty() {
        let p = *rng.pick(&dots);
        let mut t = text.to_string();
        t.remove(p);
        mutants.push(("drop-terminator", t, false));
    }
    for garbage in ["x", "s(a)", ".", "%c", "ac(", ")", "\n;"] {
        if rng.chance(1, 3) {
            mutants.push(("trailing-garbage", format!("{}{}", text, garbage), false));
        }
    }
    // truncation inside a fact
    if text.len() > 3 {
        let mut p = rng.range(1, text.len() - 1);
        while !text.is_char_boundary(p) {
            p -= 1;
        }
        mutants.push(("truncate", text[..p].to_string(), false));
    }
    mutants.push(("leading-blank", format!(" {}", text), false));
    // wrong arity at one place
    {
        let l = |i: usize| spell(&g.labels[i], false);
        let a = rng.below(g.n);
        let b = rng.below(g.n);
        let bad = match rng.below(8) {
            0 => format!("and({})", l(a)),
            1 => format!("or({},{},{})", l(a), l(b), l(a)),
            2 => format!("neg({},{})", l(a), l(b)),
            3 => "c(v,f)".to_string(),
            4 => format!("xor({},)", l(a)),
            5 => format!("iff(,{})", l(a)),
            6 => format!("imp({}{})", l(a), l(b)),
            _ => "neg()".to_string(),
        };
        mutants.push(("arity-formula", format!("{}ac({},{}).", text, l(a), bad), false));
        // near misses of the fixed tokens: wrong constants, wrong case, unknown connectives, blanks inside tokens
        let near: &[&str] = &[
            "c(t)", "c(V)", "c(F)", "c(true)", "c(false)", "c(vf)", "c(x)", "c()", "c(1)", "c(v v)", "c (v)", "C(v)",
            "Neg(a)", "NEG(a)", "not(a)", "neg (a)", "AND(a,b)", "And(a,b)", "and (a,b)", "nand(a,b)", "nor(a,b)",
            "implies(a,b)", "equiv(a,b)", "xor(a;b)", "or(a b)", "iff(a,b", "imp[a,b]", "and{a,b}", "neg(a))", "(a)",
            "a b", "a-b", "\"unterminated", "a\"b\"",
        ];
        let nm = *rng.pick(near);
        let nm = nm.replace("a", &l(a)).replace("b,", &format!("{},", l(b)));
        let embedded = match rng.below(3) {
            0 => nm.clone(),
            1 => format!("and({},{})", l(b), nm),
            _ => format!("neg(or({},{}))", nm, l(a)),
        };
        mutants.push(("near-miss-token", format!("{}ac({},{}).", text, l(a), embedded), false));
        mutants.push(("arity-s", format!("{}s({},{}).", text, l(a), l(b)), false));
        mutants.push(("arity-ac", format!("{}ac({}).", text, l(a)), false));
        mutants.push(("unknown-predicate", format!("{}t({}).", text, l(a)), false));
        mutants.push(("bad-label", format!("{}s(a_b).", text), false));
    }
    mutants.push(("empty", String::new(), false));
    for (class, t, unbalanced) in mutants {
        rep.count("negatives_generated", 1);
        rep.evaluations += 1;
        let rec_rejects = grammar::recognise(&t).is_err();
        if unbalanced && grammar::brackets_balanced_outside_quotes(&t) {
            rep.inconclusive.push(format!("mutant {} should be unbalanced: {:?}", class, t));
            return;
        }
        if !rec_rejects {
            // the mutation happened to stay inside the language: not a negative
            rep.count("mutants_still_valid_discarded", 1);
            if unbalanced {
                rep.inconclusive.push(format!("recogniser accepts an unbalanced text: {:?}", t));
                return;
            }
            continue;
        }
        let replay = json!({"property": "c08", "case_seed": case_seed.to_string(), "negative_class": class, "text": if t.len() < 3000 { t.clone() } else { "<long>".into() }});
        match lib_parse(&t, &[]) {
            Err(c) => {
                rep.violation(&format!("parser-negative:{}", c.kind()), format!("{} on malformed text ({}) {:?}", c.describe(), class, t), replay);
                return;
            }
            Ok(Ok(_)) => {
                rep.violation("parser-accepts-malformed-input", format!("accepted ({}) {:?}", class, t), replay);
                return;
            }
            Ok(Err(_)) => {
                rep.count("negatives_rejected", 1);
                rep.count(&format!("negative.{}", class), 1);
                rep.nontrivial.insert(hash_str(&t));
            }
        }
    }
}

/// every stored handle denotes the function of its statement's condition.
/// `grounded`: for the pre-grounded import, the grounded interpretation (oracle order) to substitute.
pub fn check_functions(adf: &Adf, g: &GenAdf, perm: &[usize], grounded: Option<&[Val]>) -> Result<(), String> {
    let n = g.n;
    if adf.ac.len() != n {
        return Err(format!("{} handles for {} statements", adf.ac.len(), n));
    }
    // inverse: oracle index -> lib index
    let mut inv = vec![0usize; n];
    for (j, o) in perm.iter().enumerate() {
        inv[*o] = j;
    }
    for (j, handle) in adf.ac.iter().enumerate() {
        let s = perm[j];
        if n <= 12 {
            for a in 0..(1usize << n) {
                // a: assignment over library variables
                let lib_asg = |i: usize| (a >> i) & 1 == 1;
                let got = walk(&adf.bdd.nodes, *handle, &lib_asg)?;
                let want = g.ac[s].eval(&|o: usize| match grounded {
                    Some(gr) if gr[o] != VU => gr[o] == VT,
                    _ => lib_asg(inv[o]),
                });
                if got != want {
                    return Err(format!(
                        "statement {:?}: handle {} gives {} but the condition gives {} under assignment {:b} (library variable order)",
                        g.labels[s], handle, got, want, a
                    ));
                }
            }
        }
    }
    Ok(())
}

/// sampled version for large ADFs: uniform, path-directed and corner assignments
pub fn check_functions_sampled(
    adf: &Adf,
    g: &GenAdf,
    perm: &[usize],
    grounded: Option<&[Val]>,
    rng: &mut Rng,
    per_statement: usize,
    rep: &mut Report,
) -> Result<(), String> {
    let n = g.n;
    if adf.ac.len() != n {
        return Err(format!("{} handles for {} statements", adf.ac.len(), n));
    }
    let mut inv = vec![0usize; n];
    for (j, o) in perm.iter().enumerate() {
        inv[*o] = j;
    }
    let nodes = &adf.bdd.nodes;
    for (j, handle) in adf.ac.iter().enumerate() {
        let s = perm[j];
        let mut seen = (false, false);
        for k in 0..per_statement {
            // assignment over library variables
            let mut a: Vec<bool> = (0..n).map(|_| rng.bool()).collect();
            match k {
                0 => a.iter_mut().for_each(|x| *x = false),
                1 => a.iter_mut().for_each(|x| *x = true),
                2 => {
                    a.iter_mut().for_each(|x| *x = false);
                    a[rng.below(n)] = true;
                }
                _ if k % 2 == 1 => {
                    // path directed: follow a random root-to-leaf walk and force the tested variables accordingly
                    let mut t = *handle;
                    while !t.is_truth_value() {
                        let node = nodes[t.value()];
                        let dir = rng.bool();
                        if node.var().value() < n {
                            a[node.var().value()] = dir;
                        }
                        t = if dir { node.hi() } else { node.lo() };
                    }
                }
                _ => {}
            }
            let got = walk(nodes, *handle, &|i| a[i])?;
            let want = g.ac[s].eval(&|o: usize| match grounded {
                Some(gr) if gr[o] != VU => gr[o] == VT,
                _ => a[inv[o]],
            });
            rep.count("sampled_assignments", 1);
            if got {
                seen.1 = true;
            } else {
                seen.0 = true;
            }
            if got != want {
                return Err(format!(
                    "statement {:?}: handle {} gives {} but the condition gives {} under a sampled assignment",
                    g.labels[s], handle, got, want
                ));
            }
        }
        if seen.0 && seen.1 {
            rep.count("statements_with_both_outcomes_sampled", 1);
        }
    }
    Ok(())
}

pub fn c09(cfg: &Cfg, rep: &mut Report) {
    for i in 0..cfg.cases {
        if rep.too_many() {
            break;
        }
        c09_small(cfg, rep, cfg.case_seed(i));
    }
    let large = cfg.get_usize("large", if cfg.thorough { 60 } else { 6 });
    for i in 0..large {
        if rep.too_many() {
            break;
        }
        c09_large(cfg, rep, cfg.case_seed(1_000_000 + i));
    }
}

const PIPELINES: [Backend; 4] = [Backend::Native, Backend::Bridged, Backend::HybridNoPre, Backend::HybridPre];

pub fn c09_small(cfg: &Cfg, rep: &mut Report, case_seed: u64) {
    let nm = cfg.get_usize("nmax", if cfg.thorough { 10 } else { 8 });
    let mut case = crate::sem::small_case(case_seed, nm);
    let mut rng = Rng::new(case_seed ^ 0xC09);
    if rng.chance(1, 8) {
        // "formulas of any size": one condition nested 30 to 300 levels deep, through every pipeline
        let all: Vec<usize> = (0..case.g.n).collect();
        let s = rng.below(case.g.n);
        let d = rng.range(30, cfg.get_usize("max_depth", 300));
        case.g.ac[s] = deep_formula(&mut rng, &all, d);
        rep.max("max_nesting_depth", case.g.ac[s].depth() as u64);
        rep.count("cases_with_a_deeply_nested_condition", 1);
        let r = case.g.render(&mut rng, true);
        case.text = r.text;
        case.sem = oracle::sem::Sem::new(&case.g.ac);
    }
    rep.evaluations += 1;
    let grounded = case.sem.grounded();
    let kinds: u32 = case.g.ac.iter().map(|f| f.kinds()).fold(0, |a, b| a | b);
    if (kinds >> 3).count_ones() >= 2 {
        rep.nontrivial.insert(hash_str(&case.g.structure_key()));
    }
    rep.sample(json!({"adf": case.text}));
    // "under any variable order" includes orders obtained by re-sorting one parser between compilations
    if rng.chance(1, 2) && !crate::meta::reused_parser_check(rep, &case, &mut rng, case_seed) {
        return;
    }
    for sort in SORTS {
        let replay = json!({"property": "c09", "case_seed": case_seed.to_string(), "adf": case.text, "sort": sort.name()});
        let o = match build(&case.text, sort, case.bio_ok) {
            Ok(o) => o,
            Err(e) => {
                rep.violation("build-failed", e.describe(), replay);
                return;
            }
        };
        let Some(perm) = perm_of(&o.names, &case.g) else {
            rep.violation("names-not-a-permutation", format!("{:?}", o.names), replay);
            return;
        };
        for p in PIPELINES {
            if p.needs_bio() && !case.bio_ok {
                continue;
            }
            let adf = match guarded(SMALL_BUDGET, || fresh_adf(&o, p).unwrap()) {
                Ok(a) => a,
                Err(c) => {
                    rep.violation(&format!("compile:{}", c.kind()), format!("{}: {}", p.name(), c.describe()), replay);
                    return;
                }
            };
            rep.count(&format!("pipeline.{}", p.name()), 1);
            rep.count("statements_checked", case.g.n as u64);
            let gr = if p == Backend::HybridPre { Some(grounded.as_slice()) } else { None };
            if let Err(e) = check_functions(&adf, &case.g, &perm, gr) {
                rep.violation(&format!("compiled-function-differs:{}", p.name()), format!("[{}] {}", sort.name(), e), replay);
                return;
            }
            // store audit after the import
            let mut counts = AuditCounts::default();
            let r = harness(|| {
                audit_structure(&adf.bdd.nodes)?;
                let facts = NodeFacts::compute(&adf.bdd.nodes, case.g.n, true);
                crate::bddmon::audit_canonical(&facts)?;
                audit_private(&adf.bdd, &facts, &mut rng, &mut counts)
            });
            match r {
                Ok(Ok(())) => rep.count("store_audits", 1),
                Ok(Err(e)) => {
                    rep.violation(&format!("compiled-store-audit:{}", p.name()), e, replay);
                    return;
                }
                Err(e) => rep.inconclusive.push(e),
            }
        }
    }
}

pub fn c09_large(_cfg: &Cfg, rep: &mut Report, case_seed: u64) {
    let (g, text, sem): (GenAdf, String, BigSem) = large_case(case_seed);
    let mut rng = Rng::new(case_seed ^ 0xC09);
    rep.evaluations += 1;
    rep.count("large_cases", 1);
    rep.max("max_statements", g.n as u64);
    rep.max("max_text_bytes", text.len() as u64);
    rep.max("max_formula_depth", g.ac.iter().map(|f| f.depth()).max().unwrap_or(0) as u64);
    rep.nontrivial.insert(hash_str(&g.structure_key()));
    let (grounded, _) = sem.grounded_rounds();
    let replay = json!({"property": "c09", "case_seed": case_seed.to_string(), "large": true});
    let sort = *rng.pick(&SORTS);
    let o = match build(&text, sort, true) {
        Ok(o) => o,
        Err(e) => {
            rep.violation("build-failed-large", e.describe(), replay);
            return;
        }
    };
    let Some(perm) = perm_of(&o.names, &g) else {
        rep.violation("names-not-a-permutation", "large".into(), replay);
        return;
    };
    for p in PIPELINES {
        let adf = match guarded(SMALL_BUDGET * 20, || fresh_adf(&o, p).unwrap()) {
            Ok(a) => a,
            Err(c) => {
                rep.violation(&format!("compile-large:{}", c.kind()), format!("{}: {}", p.name(), c.describe()), replay);
                return;
            }
        };
        rep.count(&format!("pipeline.{}", p.name()), 1);
        rep.count("statements_checked", g.n as u64);
        rep.max("max_nodes", adf.bdd.nodes.len() as u64);
        let gr = if p == Backend::HybridPre { Some(grounded.as_slice()) } else { None };
        if let Err(e) = check_functions_sampled(&adf, &g, &perm, gr, &mut rng, 400, rep) {
            rep.violation(&format!("compiled-function-differs-large:{}", p.name()), format!("[{}] {}", sort.name(), e), replay);
            return;
        }
        let mut counts = AuditCounts::default();
        let r = harness(|| {
            audit_structure(&adf.bdd.nodes)?;
            let facts = NodeFacts::compute(&adf.bdd.nodes, g.n, false);
            audit_private(&adf.bdd, &facts, &mut rng, &mut counts)
        });
        match r {
            Ok(Ok(())) => rep.count("store_audits", 1),
            Ok(Err(e)) => {
                rep.violation(&format!("compiled-store-audit-large:{}", p.name()), e, replay);
                return;
            }
            Err(e) => rep.inconclusive.push(e),
        }
    }
    let _ = (VF, Term::TOP);
}
