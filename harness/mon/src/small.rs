//! C18 (nogood store) and C20 (interpretation iterators).

use crate::common::*;
use adf_bdd::datatypes::adf::{ThreeValuedInterpretationsIterator, TwoValuedInterpretationsIterator};
use adf_bdd::datatypes::Term;
use adf_bdd::nogoods::{DuplicateElemination, NoGood, NoGoodStore, VerifClosure};
use oracle::{show_vals, Rng, Val, VF, VT, VU};
use serde_json::json;

// ------------------------------------------------------------------------------------------
// C20

fn terms_of(v: &[Val], rng: &mut Rng) -> Vec<Term> {
    v.iter()
        .map(|x| match *x {
            VT => Term::TOP,
            VF => Term::BOT,
            _ => Term(2 + rng.below(40)),
        })
        .collect()
}

fn vals_of(t: &[Term]) -> Vec<Val> {
    t.iter().map(crate::pipes::term_val).collect()
}

fn completions(v: &[Val], three: bool) -> Vec<Vec<Val>> {
    let mut res = vec![Vec::new()];
    for x in v {
        let opts: Vec<Val> = if *x == VU {
            if three {
                vec![VF, VT, VU]
            } else {
                vec![VF, VT]
            }
        } else {
            vec![*x]
        };
        let mut next = Vec::with_capacity(res.len() * opts.len());
        for r in &res {
            for o in &opts {
                let mut r2 = r.clone();
                r2.push(*o);
                next.push(r2);
            }
        }
        res = next;
    }
    res
}

fn c20_pattern(rep: &mut Report, pattern: &[Val], rng: &mut Rng) -> bool {
    let input = terms_of(pattern, rng);
    let k = pattern.iter().filter(|x| **x == VU).count();
    rep.evaluations += 1;
    let replay = json!({"property": "c20", "pattern": show_vals(pattern), "input": input.iter().map(|t| t.value()).collect::<Vec<_>>()});
    for three in [false, true] {
        let name = if three { "three-valued" } else { "two-valued" };
        let input2 = input.clone();
        let r = guarded(SMALL_BUDGET, move || {
            let mut out: Vec<Vec<Term>> = Vec::new();
            let mut after_end = Vec::new();
            if three {
                let mut it = ThreeValuedInterpretationsIterator::new(&input2);
                for x in it.by_ref() {
                    out.push(x);
                    if out.len() > 5_000_000 {
                        break;
                    }
                }
                for _ in 0..3 {
                    after_end.push(it.next().is_none());
                }
            } else {
                let mut it = TwoValuedInterpretationsIterator::new(&input2);
                for x in it.by_ref() {
                    out.push(x);
                    if out.len() > 5_000_000 {
                        break;
                    }
                }
                for _ in 0..3 {
                    after_end.push(it.next().is_none());
                }
            }
            (out, after_end)
        });
        let (out, after_end) = match r {
            Ok(x) => x,
            Err(c) => {
                rep.violation(&format!("iterator:{}", c.kind()), format!("{} iterator on {}: {}", name, show_vals(pattern), c.describe()), replay);
                return false;
            }
        };
        rep.count("interpretations_yielded", out.len() as u64);
        let want = completions(pattern, three);
        let expected_card = if three { 3usize.pow(k as u32) } else { 1usize << k };
        debug_assert_eq!(want.len(), expected_card);
        let got: Vec<Vec<Val>> = out.iter().map(|t| vals_of(t)).collect();
        if out.iter().any(|t| t.len() != pattern.len()) {
            rep.violation("iterator-length", format!("{} iterator on {} yielded a vector of another length", name, show_vals(pattern)), replay);
            return false;
        }
        if let Some(d) = crate::pipes::diff_sets(&got, &want) {
            rep.violation(
                &format!("iterator-set-differs:{}", name),
                format!("{} iterator on {} (k={}): {}", name, show_vals(pattern), k, d),
                replay,
            );
            return false;
        }
        if three {
            if got.first().map(|v| v.as_slice()) != Some(pattern) {
                rep.violation("three-valued-not-starting-with-input", format!("first element {:?} for input {}", got.first().map(|v| show_vals(v)), show_vals(pattern)), replay);
                return false;
            }
            // undecided positions keep the handle of the input
            for t in &out {
                for (i, x) in t.iter().enumerate() {
                    if !x.is_truth_value() && *x != input[i] {
                        rep.violation("three-valued-changes-handle", format!("undecided position {} carries {} instead of {}", i, x, input[i]), replay);
                        return false;
                    }
                }
            }
        }
        if after_end.iter().any(|b| !*b) {
            rep.violation("iterator-restarts-after-end", format!("{} iterator on {} yields again after returning None", name, show_vals(pattern)), replay);
            return false;
        }
    }
    if k >= 2 {
        rep.nontrivial.insert(hash_str(&show_vals(pattern)));
    }
    rep.max("max_undecided", k as u64);
    rep.max("max_length", pattern.len() as u64);
    true
}

/// interpretations with very many undecided positions: the full product cannot be enumerated, but the
/// first N yielded elements must be pairwise distinct valid completions and the iterator must not end early
fn c20_prefix(rep: &mut Report, len: usize, k: usize, take: usize, rng: &mut Rng) -> bool {
    let mut pattern: Vec<Val> = (0..len).map(|_| if rng.bool() { VT } else { VF }).collect();
    for pos in rng.perm(len).into_iter().take(k) {
        pattern[pos] = VU;
    }
    let input = terms_of(&pattern, rng);
    rep.evaluations += 1;
    let replay = json!({"property": "c20", "prefix_check": true, "length": len, "undecided": k, "pattern": show_vals(&pattern)});
    for three in [false, true] {
        let name = if three { "three-valued" } else { "two-valued" };
        let input2 = input.clone();
        let r = guarded(SMALL_BUDGET, move || -> Vec<Vec<Term>> {
            if three {
                ThreeValuedInterpretationsIterator::new(&input2).take(take).collect()
            } else {
                TwoValuedInterpretationsIterator::new(&input2).take(take).collect()
            }
        });
        let out = match r {
            Ok(o) => o,
            Err(c) => {
                rep.violation(&format!("iterator-prefix:{}", c.kind()), format!("{} iterator, {} undecided positions: {}", name, k, c.describe()), replay);
                return false;
            }
        };
        rep.count("prefix_elements_checked", out.len() as u64);
        // 2^k resp. 3^k elements exist; with k >= 13 that is more than `take`
        let expected = if k >= 13 { take } else { (if three { 3usize } else { 2 }).pow(k as u32).min(take) };
        if out.len() != expected {
            rep.violation(
                "iterator-ends-early",
                format!("{} iterator with {} undecided positions stopped after {} elements (asked for {})", name, k, out.len(), expected),
                replay,
            );
            return false;
        }
        let mut seen = std::collections::HashSet::new();
        for t in &out {
            let v = vals_of(t);
            let ok = v.len() == pattern.len()
                && v.iter().zip(pattern.iter()).all(|(g, p)| if *p == VU { three || *g != VU } else { g == p });
            if !ok {
                rep.violation("iterator-prefix-invalid-element", format!("{} iterator yielded {} for {}", name, show_vals(&v), show_vals(&pattern)), replay);
                return false;
            }
            if !seen.insert(v) {
                rep.violation("iterator-prefix-duplicate", format!("{} iterator with {} undecided positions repeats an element within the first {}", name, k, take), replay);
                return false;
            }
        }
    }
    rep.max("max_undecided_prefix_checked", k as u64);
    rep.nontrivial.insert(hash_str(&format!("prefix{}", show_vals(&pattern))));
    true
}

pub fn c20(cfg: &Cfg, rep: &mut Report) {
    let mut rng = Rng::new(cfg.case_seed(0));
    if !cfg.flag("no_prefix") {
        // around the machine word sizes and far beyond
        for k in [13usize, 31, 32, 33, 62, 63, 64, 65, 70, 100, 127, 128, 129, 200] {
            let len = k + rng.range(0, 20);
            if !c20_prefix(rep, len, k, cfg.get_usize("prefix_take", 3000), &mut rng) {
                return;
            }
        }
    }
    if cfg.shard == 0 {
        // complete enumeration of all patterns up to length 7
        let maxlen = cfg.get_usize("exhaustive_len", 7);
        for len in 0..=maxlen {
            let mut p = vec![VF; len];
            loop {
                if !c20_pattern(rep, &p, &mut rng) {
                    return;
                }
                rep.count("exhaustive_patterns", 1);
                let mut i = 0;
                loop {
                    if i == len {
                        break;
                    }
                    if p[i] < 2 {
                        p[i] += 1;
                        break;
                    }
                    p[i] = 0;
                    i += 1;
                }
                if i == len {
                    break;
                }
            }
        }
        rep.sample(json!({"exhaustive": format!("all patterns over T/F/u of length 0..={}", maxlen)}));
    }
    for i in 0..cfg.cases {
        let mut r = Rng::new(cfg.case_seed(i + 1));
        let len = r.range(8, 14);
        let maxu = if cfg.thorough { 10 } else { 8 };
        let mut p: Vec<Val> = (0..len).map(|_| if r.bool() { VT } else { VF }).collect();
        let k = r.range(0, maxu.min(len));
        for pos in r.perm(len).into_iter().take(k) {
            p[pos] = VU;
        }
        if !c20_pattern(rep, &p, &mut r) {
            return;
        }
        rep.count("sampled_patterns", 1);
        if i < 2 {
            rep.sample(json!({"pattern": show_vals(&p)}));
        }
    }
}

// ------------------------------------------------------------------------------------------
// C18

fn ng_terms(v: &[Val]) -> Vec<Term> {
    v.iter()
        .map(|x| match *x {
            VT => Term::TOP,
            VF => Term::BOT,
            _ => Term(7),
        })
        .collect()
}

fn read_ng(ng: &NoGood, n: usize) -> Vec<Val> {
    let mut upd = false;
    vals_of(&ng.update_term_vec(&vec![Term(7); n], &mut upd))
}

fn matches(ng: &[Val], total: &[Val]) -> bool {
    ng.iter().zip(total.iter()).all(|(a, b)| *a == VU || a == b)
}

/// total extensions of `i` that avoid every added nogood
fn extensions(added: &[Vec<Val>], i: &[Val]) -> Vec<Vec<Val>> {
    completions(i, false)
        .into_iter()
        .filter(|t| !added.iter().any(|ng| matches(ng, t)))
        .collect()
}

fn random_partial(rng: &mut Rng, n: usize, decided: usize) -> Vec<Val> {
    let mut v = vec![VU; n];
    for pos in rng.perm(n).into_iter().take(decided) {
        v[pos] = if rng.bool() { VT } else { VF };
    }
    v
}

fn mode_name(m: usize) -> &'static str {
    ["None", "Equiv", "Subsume"][m]
}

fn mode_of(m: usize) -> DuplicateElemination {
    match m {
        0 => DuplicateElemination::None,
        1 => DuplicateElemination::Equiv,
        _ => DuplicateElemination::Subsume,
    }
}

pub const C18_WITNESSES: &[(&[&str], &str, usize)] = &[
    // (nogoods, interpretation, mode): pre-study D6 and D7
    (&["uF", "TF"], "Tu", 1),
    (&["Tu", "TT"], "TF", 2),
    (&["Tu", "TT"], "Tu", 2),
];

fn parse_vals(s: &str) -> Vec<Val> {
    s.chars()
        .map(|c| match c {
            'T' => VT,
            'F' => VF,
            _ => VU,
        })
        .collect()
}

/// complete enumeration of a small scope: all add sequences up to `maxlen` over ALL non-empty partial
/// assignments of n variables, each of the three modes, checked on all 3^n interpretations
fn c18_exhaustive(rep: &mut Report, n: usize, maxlen: usize) {
    let all_partial: Vec<Vec<Val>> = completions(&vec![VU; n], true).into_iter().collect();
    let nogoods: Vec<Vec<Val>> = all_partial.iter().filter(|v| v.iter().any(|x| *x != VU)).cloned().collect();
    let ints: Vec<Vec<Val>> = all_partial.clone();
    let k = nogoods.len();
    for mode in 0..3usize {
        for len in 0..=maxlen {
            let total = k.pow(len as u32);
            for code in 0..total {
                if rep.too_many() {
                    return;
                }
                let mut c = code;
                let mut seq = Vec::with_capacity(len);
                for _ in 0..len {
                    seq.push((nogoods[c % k].clone(), mode));
                    c /= k;
                }
                c18_check(rep, n, &seq, &ints, 0);
                rep.count("exhaustive_sequences", 1);
            }
        }
    }
}

pub fn c18(cfg: &Cfg, rep: &mut Report) {
    for (ngs, int, mode) in C18_WITNESSES {
        let n = int.len();
        let seq: Vec<(Vec<Val>, usize)> = ngs.iter().map(|s| (parse_vals(s), *mode)).collect();
        c18_check(rep, n, &seq, &[parse_vals(int)], 0);
    }
    if !cfg.flag("no_exhaustive") && cfg.get("cases_only").is_none() {
        // n = 2: 8 nogoods, sequences up to length 3 (shard 0); n = 3: 26 nogoods, up to length 2 (shard 1),
        // thorough: n = 3 up to length 3 spread over shards 2.. by first element
        if cfg.shard == 0 {
            c18_exhaustive(rep, 2, 3);
            rep.sample(json!({"exhaustive": "n=2: all add sequences up to length 3 over all 8 nogoods x 3 modes x all 9 interpretations"}));
        }
        if cfg.shard == 1 {
            c18_exhaustive(rep, 3, 2);
        }
    }
    for i in 0..cfg.cases {
        if rep.too_many() {
            break;
        }
        let case_seed = cfg.case_seed(i);
        let mut rng = Rng::new(case_seed);
        let n = rng.range(1, if cfg.thorough { 7 } else { 6 });
        let k = rng.range(0, 8);
        let mut mode = rng.below(3);
        let switch = rng.chance(1, 4);
        let mut seq: Vec<(Vec<Val>, usize)> = Vec::new();
        for _ in 0..k {
            if switch && rng.chance(1, 3) {
                mode = rng.below(3);
            }
            let ng = if !seq.is_empty() && rng.chance(1, 2) {
                // nested / duplicate / subsuming relatives of an earlier nogood
                let base = seq[rng.below(seq.len())].0.clone();
                let mut v = base;
                match rng.below(4) {
                    0 => {}
                    1 => {
                        // extend
                        let pos = rng.below(n);
                        if v[pos] == VU {
                            v[pos] = if rng.bool() { VT } else { VF };
                        }
                    }
                    2 => {
                        // shrink (keep at least one literal)
                        let dec: Vec<usize> = (0..n).filter(|p| v[*p] != VU).collect();
                        if dec.len() > 1 {
                            v[*rng.pick(&dec)] = VU;
                        }
                    }
                    _ => {
                        // flip one literal (resolution partner)
                        let dec: Vec<usize> = (0..n).filter(|p| v[*p] != VU).collect();
                        if !dec.is_empty() {
                            let p = *rng.pick(&dec);
                            v[p] = 1 - v[p];
                        }
                    }
                }
                v
            } else {
                let d = rng.range(1, n);
                random_partial(&mut rng, n, d)
            };
            if ng.iter().all(|x| *x == VU) {
                continue;
            }
            seq.push((ng, mode));
        }
        let mut ints: Vec<Vec<Val>> = Vec::new();
        for _ in 0..6 {
            let d = rng.range(0, n);
            ints.push(random_partial(&mut rng, n, d));
        }
        // interpretations that contain an added nogood
        if !seq.is_empty() {
            let mut v = seq[rng.below(seq.len())].0.clone();
            for p in 0..n {
                if v[p] == VU && rng.bool() {
                    v[p] = if rng.bool() { VT } else { VF };
                }
            }
            ints.push(v);
        }
        c18_check(rep, n, &seq, &ints, case_seed);
    }
    let big = cfg.get_usize("big_cases", if cfg.thorough { 3 } else if cfg.shard < 6 && !cfg.flag("trace_log") { 1 } else { 0 });
    for i in 0..big {
        if rep.too_many() {
            break;
        }
        c18_big(cfg, rep, cfg.case_seed(3_000_000 + i));
    }
}

/// a store holding well over a thousand nogoods, most of them of one size (as a long model enumeration
/// produces them): every one of them must still be honoured
fn c18_big(cfg: &Cfg, rep: &mut Report, case_seed: u64) {
    let mut rng = Rng::new(case_seed ^ 0xB16);
    // (n, dominant size): sparse enough that about half of all total assignments stay allowed, so that a
    // nogood the store lost shows up as an assignment it no longer excludes
    let (n, dominant) = *rng.pick(&[(11usize, 11usize), (12, 12), (12, 11), (13, 13), (13, 12), (13, 11)]);
    let mode = rng.below(3);
    let cover = 1usize << (n - dominant);
    let most = ((1usize << n) * 13 / 20 / cover).min(if cfg.thorough { 2600 } else { 1600 });
    let k = rng.range(1050, most.max(1051));
    let mut seq: Vec<(Vec<Val>, usize)> = Vec::new();
    let mut seen = std::collections::HashSet::new();
    let mut guard = 0;
    while seq.len() < k && guard < 20 * k {
        guard += 1;
        let d = if rng.chance(19, 20) { dominant } else { rng.range(dominant, n) };
        let ng = random_partial(&mut rng, n, d);
        if seen.insert(ng.clone()) || rng.chance(1, 50) {
            seq.push((ng, mode));
        }
    }
    let mut ints: Vec<Vec<Val>> = Vec::new();
    for _ in 0..6 {
        let d = rng.range(n / 2, n);
        ints.push(random_partial(&mut rng, n, d));
    }
    // extensions of the nogoods added last (the ones a full bucket would have refused)
    for back in 0..3 {
        let mut v = seq[seq.len() - 1 - back].0.clone();
        for x in v.iter_mut() {
            if *x == VU && rng.bool() {
                *x = if rng.bool() { VT } else { VF };
            }
        }
        ints.push(v);
    }
    rep.count("big_stores", 1);
    rep.max("max_nogoods_in_one_store", seq.len() as u64);
    rep.max("max_nogoods_of_one_size_in_one_store", seq.iter().filter(|(v, _)| v.iter().filter(|x| **x != VU).count() == dominant).count() as u64);
    c18_check(rep, n, &seq, &ints, case_seed);
}

fn c18_check(rep: &mut Report, n: usize, seq: &[(Vec<Val>, usize)], ints: &[Vec<Val>], case_seed: u64) {
    rep.evaluations += 1;
    let added: Vec<Vec<Val>> = seq.iter().map(|(v, _)| v.clone()).collect();
    let replay = json!({"property": "c18", "case_seed": case_seed.to_string(), "n": n,
        "nogoods": seq.iter().map(|(v, m)| format!("{}@{}", show_vals(v), mode_name(*m))).collect::<Vec<_>>(),
        "interpretations": ints.iter().map(|v| show_vals(v)).collect::<Vec<_>>()});
    if rep.samples.len() < 3 {
        rep.sample(replay.clone());
    }
    let store = guarded(SMALL_BUDGET, || {
        let mut st = NoGoodStore::new(n as u32);
        for (ng, m) in seq {
            st.set_dup_elem(mode_of(*m));
            st.add_ng(NoGood::from_term_vec(&ng_terms(ng)));
        }
        st
    });
    let store = match store {
        Ok(s) => s,
        Err(c) => {
            rep.violation(&format!("nogood-add:{}", c.kind()), c.describe(), replay);
            return;
        }
    };
    let modes: std::collections::BTreeSet<usize> = seq.iter().map(|(_, m)| *m).collect();
    for m in &modes {
        rep.count(&format!("stores_using_{}", mode_name(*m)), 1);
    }
    let nested = added.iter().enumerate().any(|(i, a)| {
        added
            .iter()
            .enumerate()
            .any(|(j, b)| i != j && matches(a, &b.iter().map(|x| if *x == VU { 9 } else { *x }).collect::<Vec<_>>()))
    });
    if added.len() >= 2 && nested {
        rep.nontrivial.insert(hash_str(&format!("{:?}", seq)));
    }
    // all total assignments: conflict iff some added nogood matches
    let mut cases: Vec<(Vec<Val>, bool)> = completions(&vec![VU; n], false).into_iter().map(|t| (t, true)).collect();
    cases.extend(ints.iter().map(|i| (i.clone(), false)));
    for (int, is_total_sweep) in cases {
        let ext = extensions(&added, &int);
        let contains_added = added.iter().any(|ng| ng.iter().zip(int.iter()).all(|(a, b)| *a == VU || a == b));
        let terms = ng_terms(&int);
        let r = guarded(SMALL_BUDGET, || store.conclusions(&NoGood::from_term_vec(&terms)).map(|ng| read_ng(&ng, n)));
        rep.count("conclusions_checked", 1);
        match r {
            Err(c) => {
                rep.violation(&format!("conclusions:{}", c.kind()), format!("interpretation {}: {}", show_vals(&int), c.describe()), replay);
                return;
            }
            Ok(None) => {
                rep.count("conflicts_seen", 1);
                if !ext.is_empty() {
                    rep.violation(
                        if is_total_sweep { "nogood-invented-exclusion" } else { "nogood-spurious-conflict" },
                        format!("conflict reported for {} although {} avoids all added nogoods", show_vals(&int), show_vals(&ext[0])),
                        replay,
                    );
                    return;
                }
            }
            Ok(Some(res)) => {
                if contains_added {
                    rep.violation(
                        if is_total_sweep { "nogood-forgotten-exclusion" } else { "nogood-missed-direct-match" },
                        format!("no conflict for {} although it matches an added nogood", show_vals(&int)),
                        replay,
                    );
                    return;
                }
                for p in 0..n {
                    if int[p] != VU && res[p] != int[p] {
                        rep.violation("nogood-changed-decided-position", format!("interpretation {} -> {}", show_vals(&int), show_vals(&res)), replay);
                        return;
                    }
                    if int[p] == VU && res[p] != VU {
                        rep.count("literals_concluded", 1);
                        if ext.iter().any(|e| e[p] != res[p]) {
                            rep.violation(
                                "nogood-unsound-conclusion",
                                format!("from {} the store concludes position {} = {} but an allowed extension disagrees", show_vals(&int), p, show_vals(&res[p..p + 1])),
                                replay,
                            );
                            return;
                        }
                    }
                }
            }
        }
        if is_total_sweep {
            continue;
        }
        // the closure (hook H5)
        let r = guarded(SMALL_BUDGET, || store.verif_conclusion_closure(&terms));
        rep.count("closures_checked", 1);
        match r {
            Err(c) => {
                rep.violation(&format!("closure:{}", c.kind()), c.describe(), replay);
                return;
            }
            Ok(VerifClosure::Inconsistent) => {
                if !ext.is_empty() {
                    rep.violation("closure-spurious-conflict", format!("closure of {} is inconsistent although {} is allowed", show_vals(&int), show_vals(&ext[0])), replay);
                    return;
                }
            }
            Ok(VerifClosure::NoUpdate) => {
                if contains_added {
                    rep.violation("closure-missed-direct-match", format!("closure of {} reports nothing although it matches an added nogood", show_vals(&int)), replay);
                    return;
                }
            }
            Ok(VerifClosure::Update(v)) => {
                let res = vals_of(&v);
                if contains_added {
                    rep.violation("closure-missed-direct-match", format!("closure of {} reports an update although it matches an added nogood", show_vals(&int)), replay);
                    return;
                }
                for p in 0..n {
                    if int[p] != VU && res[p] != int[p] {
                        rep.violation("closure-changed-decided-position", format!("{} -> {}", show_vals(&int), show_vals(&res)), replay);
                        return;
                    }
                    if int[p] == VU && res[p] != VU && ext.iter().any(|e| e[p] != res[p]) {
                        rep.violation("closure-unsound-conclusion", format!("{} -> {}", show_vals(&int), show_vals(&res)), replay);
                        return;
                    }
                }
                // idempotent
                match guarded(SMALL_BUDGET, || store.verif_conclusion_closure(&v)) {
                    Ok(VerifClosure::NoUpdate) => {}
                    Ok(VerifClosure::Update(w)) if w == v => {}
                    Ok(other) => {
                        // an inconsistent second closure is allowed only if there is no extension at all
                        if !(other == VerifClosure::Inconsistent && ext.is_empty()) {
                            rep.violation("closure-not-idempotent", format!("closure({}) = {} but closing again gives {:?}", show_vals(&int), show_vals(&res), other), replay);
                            return;
                        }
                    }
                    Err(c) => {
                        rep.violation(&format!("closure:{}", c.kind()), c.describe(), replay);
                        return;
                    }
                }
            }
        }
    }
}
