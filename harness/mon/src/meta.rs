//! C10: presentation independence (metamorphic monitor).

use crate::common::*;
use crate::pipes::*;
use crate::sem::{large_case, small_case};
use adf_bdd::adf::heuristics::Heuristic;
use adf_bdd::datatypes::Term;
use oracle::gen::{gen_labels, GenAdf, LabelMode};
use oracle::{show_vals, Rng, Val, VU};
use serde_json::json;
use std::collections::BTreeMap;

/// answers of one variant in oracle index space, keyed by "semantics.procedure"
type Answers = BTreeMap<String, Vec<Vec<Val>>>;

fn sorted_set(models: &[Vec<Term>], perm: &[usize]) -> Vec<Vec<Val>> {
    sorted(to_vals_set(models, perm))
}

/// compute the answers of one presentation. `full`: all semantics (small instances).
fn answers(o: &Objs, perm: &[usize], full: bool, budget: u64) -> Result<Answers, (String, Caught)> {
    let mut a: Answers = BTreeMap::new();
    let run = |name: &str, f: &mut dyn FnMut() -> Vec<Vec<Term>>| -> Result<Vec<Vec<Val>>, (String, Caught)> {
        guarded(budget, || f()).map(|m| sorted_set(&m, perm)).map_err(|c| (name.to_string(), c))
    };
    for b in BACKENDS {
        if b.needs_bio() && o.bio.is_none() {
            continue;
        }
        let name = format!("grounded.{}", b.name());
        let r = run(&name, &mut || {
            vec![match b {
                Backend::Bio => o.bio.as_ref().unwrap().grounded(),
                _ => fresh_adf(o, b).unwrap().grounded(),
            }]
        })?;
        a.insert(name, r);
    }
    let backs: Vec<Backend> = if o.bio.is_some() {
        vec![Backend::Native, Backend::Bio, Backend::HybridPre]
    } else {
        vec![Backend::Native]
    };
    for b in &backs {
        let name = format!("complete.{}", b.name());
        let r = run(&name, &mut || match b {
            Backend::Bio => o.bio.as_ref().unwrap().complete().collect(),
            _ => fresh_adf(o, *b).unwrap().complete().collect(),
        })?;
        a.insert(name, r);
        let name = format!("stable.{}", b.name());
        let r = run(&name, &mut || match b {
            Backend::Bio => o.bio.as_ref().unwrap().stable().collect(),
            _ => fresh_adf(o, *b).unwrap().stable().collect(),
        })?;
        a.insert(name, r);
    }
    if full {
        for b in &backs {
            if *b == Backend::Bio {
                let name = "stable.rewrite.biodivine".to_string();
                let r = run(&name, &mut || o.bio_rw.as_ref().unwrap().stable_bdd_representation())?;
                a.insert(name, r);
                continue;
            }
            let name = format!("stable.prefilter.{}", b.name());
            let r = run(&name, &mut || fresh_adf(o, *b).unwrap().stable_with_prefilter().collect())?;
            a.insert(name, r);
            let name = format!("stable.count_a.{}", b.name());
            let r = run(&name, &mut || fresh_adf(o, *b).unwrap().stable_count_optimisation_heu_a().collect())?;
            a.insert(name, r);
            let name = format!("stable.count_b.{}", b.name());
            let r = run(&name, &mut || fresh_adf(o, *b).unwrap().stable_count_optimisation_heu_b().collect())?;
            a.insert(name, r);
            for (hn, h) in [("simple", Heuristic::Simple), ("minmod", Heuristic::MinModMinPathsMaxVarImp)] {
                let name = format!("stable.nogood.{}.{}", hn, b.name());
                let r = run(&name, &mut || fresh_adf(o, *b).unwrap().stable_nogood(h).collect())?;
                a.insert(name, r);
            }
            let name = format!("twovalued.nogood.{}", b.name());
            let r = run(&name, &mut || {
                let (s, r) = crossbeam_channel::unbounded();
                fresh_adf(o, *b).unwrap().two_val_nogood_channel(Heuristic::Simple, s);
                r.iter().collect()
            })?;
            a.insert(name, r);
        }
    }
    Ok(a)
}

/// semantics class of an answer key: all keys of one class must carry the same set
fn class_of(key: &str) -> &str {
    key.split('.').next().unwrap()
}

fn rename(g: &GenAdf, rng: &mut Rng, bio_safe: bool) -> GenAdf {
    let mut labels = match rng.below(3) {
        0 => gen_labels(rng, g.n, LabelMode::Plain),
        _ => gen_labels(rng, g.n, if bio_safe { LabelMode::BioSafe } else { LabelMode::All }),
    };
    if rng.chance(1, 3) {
        // reverse the sorted order relative to the old labels
        let mut old_rank: Vec<usize> = (0..g.n).collect();
        old_rank.sort_by(|a, b| g.labels[*a].cmp(&g.labels[*b]));
        let mut sorted_new = labels.clone();
        sorted_new.sort();
        sorted_new.reverse();
        for (rank, idx) in old_rank.iter().enumerate() {
            labels[*idx] = sorted_new[rank].clone();
        }
    }
    GenAdf {
        n: g.n,
        labels,
        ac: g.ac.clone(),
        family: g.family,
    }
}

/// printing: one `X(label) ` per statement in library order, labels byte-wise sorted under lexi
fn check_printing(o: &Objs, perm: &[usize], g: &GenAdf) -> Result<(), String> {
    let mut adf = parse_native(&o.text, o.sort);
    let gr = adf.grounded();
    let printed = format!("{}", adf.print_interpretation(&gr));
    let mut want = String::new();
    for (j, t) in gr.iter().enumerate() {
        let c = match term_val(t) {
            oracle::VT => 'T',
            oracle::VF => 'F',
            _ => 'u',
        };
        want.push_str(&format!("{}({}) ", c, g.labels[perm[j]]));
    }
    want.push('\n');
    if printed != want {
        return Err(format!("printed {:?}, expected {:?}", printed, want));
    }
    let via_dict = format!("{}", adf.print_dictionary().print_interpretation(&gr));
    if via_dict != want {
        return Err(format!("print dictionary printed {:?}, expected {:?}", via_dict, want));
    }
    if o.sort == Sort::Lexi {
        let mut s = o.names.clone();
        s.sort_by(|a, b| a.as_bytes().cmp(b.as_bytes()));
        if s != o.names {
            return Err(format!("lexicographic sorting reports statements in order {:?}, byte-wise order is {:?}", o.names, s));
        }
    }
    Ok(())
}

pub fn c10(cfg: &Cfg, rep: &mut Report) {
    for i in 0..cfg.cases {
        if rep.too_many() {
            break;
        }
        c10_case(cfg, rep, cfg.case_seed(i));
    }
    let large = cfg.get_usize("large", if cfg.thorough { 40 } else { 3 });
    for i in 0..large {
        if rep.too_many() {
            break;
        }
        c10_large(cfg, rep, cfg.case_seed(1_000_000 + i));
    }
}

fn compare_variants(
    rep: &mut Report,
    all: &[(String, Answers)],
    oracle: Option<&BTreeMap<&'static str, Vec<Vec<Val>>>>,
    replay: &serde_json::Value,
) -> bool {
    // every key of one class carries the same set, across procedures, back-ends and variants
    let mut reference: BTreeMap<String, (String, Vec<Vec<Val>>)> = BTreeMap::new();
    if let Some(or) = oracle {
        for (k, v) in or {
            reference.insert(k.to_string(), ("definition".to_string(), sorted(v.clone())));
        }
    }
    for (vname, ans) in all {
        for (key, set) in ans {
            rep.count("answer_sets_compared", 1);
            let class = class_of(key).to_string();
            match reference.get(&class) {
                None => {
                    reference.insert(class, (format!("{} {}", vname, key), set.clone()));
                }
                Some((who, want)) => {
                    if want != set {
                        rep.violation(
                            "presentation-changes-answer",
                            format!(
                                "{} of variant [{}] gives {:?} but {} gives {:?}",
                                key,
                                vname,
                                set.iter().map(|m| show_vals(m)).collect::<Vec<_>>(),
                                who,
                                want.iter().map(|m| show_vals(m)).collect::<Vec<_>>()
                            ),
                            replay.clone(),
                        );
                        return false;
                    }
                }
            }
        }
    }
    true
}

/// one parser object, re-sorted between instantiations: every stage must give the definitional answers
/// and (C09) every stored handle must denote its statement's condition
pub fn reused_parser_check(rep: &mut Report, case: &crate::sem::SmallCase, rng: &mut Rng, case_seed: u64) -> bool {
    let mut sorts = vec![Sort::None];
    for _ in 0..rng.range(1, 3) {
        sorts.push(*rng.pick(&[Sort::Lexi, Sort::Alnum, Sort::Lexi]));
    }
    let replay = json!({"property": "c10", "case_seed": case_seed.to_string(), "text": case.text, "reused_parser_sorts": sorts.iter().map(|s| s.name()).collect::<Vec<_>>()});
    let stages = match reused_parser_stages(&case.text, &sorts, case.bio_ok) {
        Ok(s) => s,
        Err(e) => {
            rep.violation("reused-parser-build", e.describe(), replay);
            return false;
        }
    };
    let want_g = vec![case.sem.grounded()];
    let want_c = sorted(case.sem.complete());
    let want_s = sorted(case.sem.stable());
    for (k, st) in stages.iter().enumerate() {
        rep.count("reused_parser_stages", 1);
        let Some(perm) = perm_of(&st.names, &case.g) else {
            rep.violation("names-not-a-permutation", format!("stage {} {:?}", k, st.names), replay);
            return false;
        };
        for (sets, want, what) in [
            (st.grounded.iter().map(|(n, g)| (*n, vec![g.clone()])).collect::<Vec<_>>(), &want_g, "grounded"),
            (st.complete.clone(), &want_c, "complete"),
            (st.stable.clone(), &want_s, "stable"),
        ] {
            for (name, models) in sets {
                let got = sorted_set(&models, &perm);
                if got != *want {
                    rep.violation(
                        "reused-parser-changes-answer",
                        format!(
                            "stage {} ({}) of one re-sorted parser: {} {} = {:?}, definition {:?}",
                            k, st.sort.name(), name, what,
                            got.iter().map(|m| show_vals(m)).collect::<Vec<_>>(),
                            want.iter().map(|m| show_vals(m)).collect::<Vec<_>>()
                        ),
                        replay,
                    );
                    return false;
                }
            }
        }
        // stored handles denote the written conditions (the C09 walk), native and bridged
        for (ac, nodes, which) in [(&st.native_ac, &st.native_nodes, "native"), (&st.bridged_ac, &st.bridged_nodes, "bridged")] {
            if ac.is_empty() {
                continue;
            }
            let n = case.g.n;
            let mut inv = vec![0usize; n];
            for (j, o) in perm.iter().enumerate() {
                inv[*o] = j;
            }
            for (j, h) in ac.iter().enumerate() {
                for a in 0..(1usize << n) {
                    let got = walk(nodes, *h, &|i| (a >> i) & 1 == 1);
                    let want = case.g.ac[perm[j]].eval(&|o: usize| (a >> inv[o]) & 1 == 1);
                    if got != Ok(want) {
                        rep.violation(
                            "reused-parser-handle-differs",
                            format!("stage {} ({}), {} object: handle of statement {:?} does not denote its condition", k, st.sort.name(), which, case.g.labels[perm[j]]),
                            replay,
                        );
                        return false;
                    }
                }
            }
        }
    }
    true
}

pub fn c10_case(cfg: &Cfg, rep: &mut Report, case_seed: u64) {
    let nm = cfg.get_usize("nmax", if cfg.thorough { 7 } else { 5 });
    let case = small_case(case_seed, nm);
    let mut rng = Rng::new(case_seed ^ 0xC10);
    rep.evaluations += 1;
    if !reused_parser_check(rep, &case, &mut rng, case_seed) {
        return;
    }
    let nvariants = rng.range(3, 5);
    let mut all: Vec<(String, Answers)> = Vec::new();
    let mut texts = Vec::new();
    let mut orders = std::collections::BTreeSet::new();
    for v in 0..nvariants {
        // variant 0 is the case itself; the others are renamed, re-ordered and re-laid-out
        let g = if v == 0 { case.g.clone() } else if rng.chance(2, 3) { rename(&case.g, &mut rng, case.bio_ok) } else { case.g.clone() };
        let lay = rng.bool();
        let text = if v == 0 { case.text.clone() } else { g.render(&mut rng, lay).text };
        let sort = if v < 3 { SORTS[v] } else { *rng.pick(&SORTS) };
        let vname = format!("v{} {}", v, sort.name());
        let replay = json!({"property": "c10", "case_seed": case_seed.to_string(), "variant": vname, "text": text, "base": case.text});
        let bio = g.bio_safe() && case.bio_ok;
        let o = match build(&text, sort, bio) {
            Ok(o) => o,
            Err(e) => {
                rep.violation("build-failed", e.describe(), replay);
                return;
            }
        };
        let Some(perm) = perm_of(&o.names, &g) else {
            rep.violation("names-not-a-permutation", format!("{:?}", o.names), replay);
            return;
        };
        orders.insert(perm.clone());
        match harness(|| check_printing(&o, &perm, &g)) {
            Ok(Ok(())) => rep.count("printed_interpretations_checked", 1),
            Ok(Err(e)) => {
                rep.violation("printing", e, replay);
                return;
            }
            Err(e) => {
                rep.violation("printing:panic", e, replay);
                return;
            }
        }
        match answers(&o, &perm, true, SMALL_BUDGET) {
            Ok(a) => all.push((vname, a)),
            Err((name, c)) => {
                rep.violation(&format!("variant-call:{}", c.kind()), format!("{}: {}", name, c.describe()), replay);
                return;
            }
        }
        texts.push(text);
    }
    let mut oracle: BTreeMap<&'static str, Vec<Vec<Val>>> = BTreeMap::new();
    oracle.insert("grounded", vec![case.sem.grounded()]);
    oracle.insert("complete", case.sem.complete());
    oracle.insert("stable", case.sem.stable());
    oracle.insert("twovalued", case.sem.two_valued());
    let replay = json!({"property": "c10", "case_seed": case_seed.to_string(), "variants": texts});
    if !compare_variants(rep, &all, Some(&oracle), &replay) {
        return;
    }
    rep.count("variants", nvariants as u64);
    if orders.len() >= 3 && oracle["complete"].len() >= 2 {
        rep.nontrivial.insert(hash_str(&case.g.structure_key()));
    }
    if rep.samples.len() < 2 {
        rep.sample(json!({"variants": texts}));
    }
}

pub fn c10_large(_cfg: &Cfg, rep: &mut Report, case_seed: u64) {
    // (every other case: a mid-size framework whose undecided block has random conditions, all procedures)
    let mid = case_seed % 2 == 1;
    let (g, text, sem) = if mid {
        let m = crate::sem::mid_case(case_seed, false);
        let sem = oracle::sem::BigSem::new(&m.g.ac);
        (m.g, m.text, sem)
    } else {
        large_case(case_seed)
    };
    let mut rng = Rng::new(case_seed ^ 0xC10);
    let (grounded, _) = sem.grounded_rounds();
    let undecided = grounded.iter().filter(|v| **v == VU).count();
    rep.evaluations += 1;
    rep.count("large_cases", 1);
    rep.max("max_statements", g.n as u64);
    rep.max("max_undecided_after_grounding_large", undecided as u64);
    let mut all: Vec<(String, Answers)> = Vec::new();
    let mut oracle: BTreeMap<&'static str, Vec<Vec<Val>>> = BTreeMap::new();
    oracle.insert("grounded", vec![grounded]);
    // the definitional answers among the refinements of the grounded interpretation (few statements stay undecided)
    if let Some(c) = sem.complete(8) {
        oracle.insert("complete", c);
        rep.count("large_cases_with_definitional_complete_models", 1);
    }
    if let Some(t) = sem.two_valued(12) {
        oracle.insert("stable", t.iter().filter(|v| sem.is_stable(v)).cloned().collect());
        oracle.insert("twovalued", t);
        rep.count("large_cases_with_definitional_stable_models", 1);
    }
    for v in 0..3 {
        let gv = if v == 0 {
            g.clone()
        } else {
            // consistent renaming that changes every sort order
            let mut labels: Vec<String> = (0..g.n).map(|i| format!("{}{}", ["q", "and", "z", "s", "0x"][(i + v) % 5], (g.n - i) * (v + 2))).collect();
            rng.shuffle(&mut labels);
            GenAdf { n: g.n, labels, ac: g.ac.clone(), family: g.family }
        };
        let t = if v == 0 { text.clone() } else { gv.render(&mut rng, true).text };
        let sort = SORTS[v % 3];
        let vname = format!("large v{} {}", v, sort.name());
        let replay = json!({"property": "c10", "case_seed": case_seed.to_string(), "large": true, "variant": vname});
        let o = match build(&t, sort, true) {
            Ok(o) => o,
            Err(e) => {
                rep.violation("build-failed-large", e.describe(), replay);
                return;
            }
        };
        let Some(perm) = perm_of(&o.names, &gv) else {
            rep.violation("names-not-a-permutation", "large".into(), replay);
            return;
        };
        // complete / stable enumeration is feasible because few statements stay undecided
        match answers(&o, &perm, mid, SMALL_BUDGET * 50) {
            Ok(a) => all.push((vname, a)),
            Err((name, c)) => {
                rep.violation(&format!("variant-call-large:{}", c.kind()), format!("{}: {}", name, c.describe()), replay);
                return;
            }
        }
    }
    let replay = json!({"property": "c10", "case_seed": case_seed.to_string(), "large": true});
    if compare_variants(rep, &all, Some(&oracle), &replay) {
        rep.nontrivial.insert(hash_str(&g.structure_key()));
    }
}
