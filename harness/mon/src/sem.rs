//! C01 - C05: semantics of the real code against the definitional oracle.

use crate::common::*;
use crate::pipes::*;
use adf_bdd::adf::heuristics::Heuristic;
use adf_bdd::adf::Adf;
use adf_bdd::datatypes::{Term, Var};
use adf_bdd::verif::Event;
use oracle::gen::{gen_adf, gen_large, GenAdf, LabelMode};
use oracle::sem::{BigSem, Sem};
use oracle::{show_vals, Rng, Val, VF, VT, VU};
use serde_json::{json, Value};
use std::sync::atomic::{AtomicU64, Ordering};

/// a small generated case: ADF, one presentation, definitional semantics
pub struct SmallCase {
    pub g: GenAdf,
    pub text: String,
    pub sem: Sem,
    pub bio_ok: bool,
}

pub fn nmax(cfg: &Cfg) -> usize {
    cfg.get_usize("nmax", if cfg.thorough { 8 } else { 6 })
}

pub fn small_case(case_seed: u64, nmax: usize) -> SmallCase {
    let mut rng = Rng::new(case_seed);
    // favour mid sizes, but keep the extremes
    let n = match rng.below(10) {
        0 => 1,
        1 => 2,
        2 => nmax,
        _ => rng.range(2, nmax),
    };
    let mode = match rng.below(8) {
        0 => LabelMode::All,
        1 | 2 => LabelMode::Plain,
        _ => LabelMode::BioSafe,
    };
    let g = gen_adf(&mut rng, n, mode);
    let r = g.render(&mut rng, true);
    let sem = Sem::new(&g.ac);
    let bio_ok = g.bio_safe();
    SmallCase {
        g,
        text: r.text,
        sem,
        bio_ok,
    }
}

/// all ADFs over n statements in which every condition is one of the 2^(2^n) Boolean functions
/// (n = 1: 4 ADFs, n = 2: 256 ADFs), each written in one of three styles. Complete for that space.
pub fn all_tiny_adfs() -> Vec<SmallCase> {
    let mut out = Vec::new();
    for n in 1..=2usize {
        let nfun = 1usize << (1 << n);
        let total = nfun.pow(n as u32);
        for code in 0..total {
            let mut ac = Vec::new();
            let mut c = code;
            for s in 0..n {
                let f = c % nfun;
                c /= nfun;
                let tt = oracle::TT::from_fn(n, |a| (f >> a) & 1 == 1);
                ac.push(oracle::F::from_tt(&tt, (code + s) % 3));
            }
            let g = GenAdf { n, labels: (0..n).map(|i| ["p", "q"][i].to_string()).collect(), ac, family: "exhaustive-tiny" };
            let text = g.canonical();
            let sem = Sem::new(&g.ac);
            out.push(SmallCase { g, text, sem, bio_ok: true });
        }
    }
    out
}

fn replay_of(cfg: &Cfg, case_seed: u64, case: &SmallCase, extra: Value) -> Value {
    json!({
        "property": cfg.prop,
        "case_seed": case_seed.to_string(),
        "nmax": nmax(cfg),
        "adf": case.text,
        "canonical": case.g.canonical(),
        "detail": extra,
    })
}

fn sorts_for(rng: &mut Rng, all: bool) -> Vec<Sort> {
    if all {
        SORTS.to_vec()
    } else {
        vec![Sort::None, if rng.bool() { Sort::Lexi } else { Sort::Alnum }]
    }
}

fn backends_for(case: &SmallCase) -> Vec<Backend> {
    if case.bio_ok {
        BACKENDS.to_vec()
    } else {
        vec![Backend::Native]
    }
}

fn build_or_report(
    cfg: &Cfg,
    rep: &mut Report,
    case_seed: u64,
    case: &SmallCase,
    sort: Sort,
) -> Option<(Objs, Vec<usize>)> {
    match build(&case.text, sort, case.bio_ok) {
        Ok(o) => match perm_of(&o.names, &case.g) {
            Some(p) => Some((o, p)),
            None => {
                rep.violation(
                    "names-not-a-permutation",
                    format!("library names {:?} vs labels {:?}", o.names, case.g.labels),
                    replay_of(cfg, case_seed, case, json!({"sort": sort.name()})),
                );
                None
            }
        },
        Err(e) => {
            rep.violation(
                "build-failed",
                format!("well-formed ADF could not be built ({}): {}", sort.name(), e.describe()),
                replay_of(cfg, case_seed, case, json!({"sort": sort.name()})),
            );
            None
        }
    }
}

fn report_caught(
    cfg: &Cfg,
    rep: &mut Report,
    case_seed: u64,
    case: &SmallCase,
    what: &str,
    sort: Sort,
    c: &Caught,
) {
    rep.violation(
        &format!("{}:{}", what_class(what), c.kind()),
        format!("{} [{}] {}", what, sort.name(), c.describe()),
        replay_of(cfg, case_seed, case, json!({"proc": what, "sort": sort.name()})),
    );
}

fn what_class(what: &str) -> String {
    what.to_string()
}

// ------------------------------------------------------------------------------------------
// C01

pub fn c01(cfg: &Cfg, rep: &mut Report) {
    let nm = nmax(cfg);
    if cfg.shard == 0 && !cfg.flag("no_exhaustive") {
        for (i, case) in all_tiny_adfs().iter().enumerate() {
            c01_check(cfg, rep, i as u64, case);
            rep.count("exhaustive_tiny_adfs", 1);
        }
    }
    for i in 0..cfg.cases {
        if rep.too_many() {
            break;
        }
        let case_seed = cfg.case_seed(i);
        c01_case(cfg, rep, case_seed, nm);
    }
    // large instances with the support bounded oracle
    let large = cfg.get_usize("large", if cfg.thorough { 120 } else { 12 });
    for i in 0..large {
        if rep.too_many() {
            break;
        }
        let case_seed = cfg.case_seed(1_000_000 + i);
        c01_large(cfg, rep, case_seed);
    }
    // tall instances (64+ statements, diagrams of 64+ levels) with the strong Kleene oracle
    let tall = cfg.get_usize("tall", (large / 3).max(if large > 0 { 2 } else { 0 }));
    for i in 0..tall {
        if rep.too_many() {
            break;
        }
        c01_tall(cfg, rep, cfg.case_seed(8_000_000 + i));
    }
}

pub fn c01_case(cfg: &Cfg, rep: &mut Report, case_seed: u64, nm: usize) {
    let case = small_case(case_seed, nm);
    c01_check(cfg, rep, case_seed, &case);
}

pub fn c01_check(cfg: &Cfg, rep: &mut Report, case_seed: u64, case: &SmallCase) {
    let mut rng = Rng::new(case_seed ^ 0xC01);
    let (want, rounds) = case.sem.grounded_rounds();
    rep.evaluations += 1;
    rep.count(&format!("rounds_{}", rounds.min(6)), 1);
    rep.max("max_rounds", rounds as u64);
    let decided = want.iter().filter(|v| **v != VU).count();
    let mixed = decided > 0 && decided < case.g.n;
    // decided-false-before-true: some statement is F after round 1 and some T appears only later
    let nontrivial = rounds >= 2 || mixed;
    if nontrivial {
        rep.nontrivial.insert(hash_str(&case.g.structure_key()));
    }
    rep.distinct("grounded_vectors", hash_str(&show_vals(&want)));
    rep.sample(json!({"adf": case.text, "grounded": show_vals(&want), "rounds": rounds, "family": case.g.family}));
    for sort in sorts_for(&mut rng, true) {
        let Some((o, perm)) = build_or_report(cfg, rep, case_seed, &case, sort) else {
            continue;
        };
        for b in backends_for(&case) {
            match grounded_of(&o, b) {
                Ok(g) => {
                    rep.count("grounded_compared", 1);
                    rep.max("max_steps", last_steps());
                    if g.len() != case.g.n {
                        rep.violation(
                            "grounded-length",
                            format!("{} returned {} entries for {} statements", b.name(), g.len(), case.g.n),
                            replay_of(cfg, case_seed, &case, json!({"backend": b.name(), "sort": sort.name()})),
                        );
                        continue;
                    }
                    let got = to_vals(&g, &perm);
                    if got != want {
                        rep.violation(
                            "grounded-differs",
                            format!(
                                "{} [{}] grounded {} but least fixpoint is {} (labels {:?})",
                                b.name(),
                                sort.name(),
                                show_vals(&got),
                                show_vals(&want),
                                case.g.labels
                            ),
                            replay_of(cfg, case_seed, &case, json!({"backend": b.name(), "sort": sort.name()})),
                        );
                    }
                }
                Err(c) => report_caught(cfg, rep, case_seed, &case, &format!("grounded.{}", b.name()), sort, &c),
            }
        }
    }
}

pub fn large_case(case_seed: u64) -> (GenAdf, String, BigSem) {
    let mut rng = Rng::new(case_seed);
    let n = rng.range(30, 60);
    let cyclic = rng.range(0, 8);
    let depth = rng.range(2, 5);
    let g = gen_large(&mut rng, n, 8, cyclic, depth);
    let r = g.render(&mut rng, true);
    let sem = BigSem::new(&g.ac);
    (g, r.text, sem)
}

fn c01_large(cfg: &Cfg, rep: &mut Report, case_seed: u64) {
    let (g, text, sem) = large_case(case_seed);
    let (want, rounds) = sem.grounded_rounds();
    rep.count("large_cases", 1);
    rep.max("max_rounds_large", rounds as u64);
    c01_big_check(cfg, rep, case_seed, &g, &text, &want, false);
}

/// tall frameworks (64 to 90 statements, a condition chained over nearly all others): grounded interpretation
/// from the strong Kleene fixpoint (exact, every condition is read-once), on every back-end and variable order
fn c01_tall(cfg: &Cfg, rep: &mut Report, case_seed: u64) {
    let mut rng = Rng::new(case_seed ^ 0x7A11);
    let g = oracle::gen::gen_tall(&mut rng);
    let r = g.render(&mut rng, true);
    let want = oracle::gen::tall_grounded(&g);
    rep.count("tall_cases", 1);
    c01_big_check(cfg, rep, case_seed, &g, &r.text, &want, true);
}

fn c01_big_check(cfg: &Cfg, rep: &mut Report, case_seed: u64, g: &GenAdf, text: &str, want: &[Val], tall: bool) {
    let text = text.to_string();
    let want = want.to_vec();
    rep.evaluations += 1;
    rep.max("max_statements", g.n as u64);
    rep.nontrivial.insert(hash_str(&g.structure_key()));
    let replay = json!({"property": cfg.prop, "case_seed": case_seed.to_string(), "large": true, "tall": tall, "adf": text});
    for sort in SORTS {
        let o = match build(&text, sort, true) {
            Ok(o) => o,
            Err(e) => {
                if tall && tall_abort_is_known(cfg, rep, &e.describe(), g.n, replay.clone()) {
                    return;
                }
                rep.violation("build-failed-large", e.describe(), replay.clone());
                continue;
            }
        };
        let Some(perm) = perm_of(&o.names, g) else {
            rep.violation("names-not-a-permutation", "large".into(), replay.clone());
            continue;
        };
        for b in BACKENDS {
            let r = guarded(SMALL_BUDGET * 20, || match b {
                Backend::Bio => o.bio.as_ref().unwrap().grounded(),
                _ => fresh_adf(&o, b).unwrap().grounded(),
            });
            match r {
                Ok(gr) => {
                    rep.count("grounded_compared", 1);
                    rep.max("max_steps_large", last_steps());
                    let got = to_vals(&gr, &perm);
                    if got != want {
                        rep.violation(
                            "grounded-differs-large",
                            format!("{} [{}] grounded {} but least fixpoint is {}", b.name(), sort.name(), show_vals(&got), show_vals(&want)),
                            replay.clone(),
                        );
                    }
                }
                Err(c) => rep.violation(&format!("grounded-large:{}", c.kind()), format!("{} {}", b.name(), c.describe()), replay.clone()),
            }
        }
    }
}

// ------------------------------------------------------------------------------------------
// C02

pub fn c02(cfg: &Cfg, rep: &mut Report) {
    let nm = nmax(cfg);
    if cfg.shard == 0 && !cfg.flag("no_exhaustive") {
        for (i, case) in all_tiny_adfs().iter().enumerate() {
            c02_check(cfg, rep, i as u64, case);
            rep.count("exhaustive_tiny_adfs", 1);
        }
    }
    for i in 0..cfg.cases {
        if rep.too_many() {
            break;
        }
        c02_case(cfg, rep, cfg.case_seed(i), nm);
    }
    mid_cases(cfg, rep);
}

pub fn c02_case(cfg: &Cfg, rep: &mut Report, case_seed: u64, nm: usize) {
    let case = small_case(case_seed, nm);
    c02_check(cfg, rep, case_seed, &case);
}

pub fn c02_check(cfg: &Cfg, rep: &mut Report, case_seed: u64, case: &SmallCase) {
    let mut rng = Rng::new(case_seed ^ 0xC02);
    // "all variable orders" includes orders obtained by re-sorting one parser between instantiations
    if rng.chance(1, 3) && !crate::meta::reused_parser_check(rep, case, &mut rng, case_seed) {
        return;
    }
    let want = case.sem.complete();
    let grounded = case.sem.grounded();
    rep.evaluations += 1;
    let k = grounded.iter().filter(|v| **v == VU).count();
    rep.max("max_undecided_after_grounding", k as u64);
    rep.count(
        match want.len() {
            1 => "adfs_with_1_model",
            2 | 3 => "adfs_with_2_3_models",
            _ => "adfs_with_4plus_models",
        },
        1,
    );
    if want.len() >= 2 {
        rep.nontrivial.insert(hash_str(&case.g.structure_key()));
    }
    rep.sample(json!({"adf": case.text, "complete": want.iter().map(|m| show_vals(m)).collect::<Vec<_>>()}));
    if !want.contains(&grounded) {
        rep.inconclusive.push(format!("oracle: grounded not among complete models for {}", case.g.canonical()));
        return;
    }
    for sort in sorts_for(&mut rng, cfg.thorough) {
        let Some((o, perm)) = build_or_report(cfg, rep, case_seed, &case, sort) else {
            continue;
        };
        for b in backends_for(&case) {
            match complete_of(&o, b) {
                Ok(ms) => {
                    rep.count("model_sets_compared", 1);
                    rep.count("models_compared", ms.len() as u64);
                    rep.max("max_steps", last_steps());
                    let got = to_vals_set(&ms, &perm);
                    let detail = json!({"backend": b.name(), "sort": sort.name()});
                    if let Some(d) = diff_sets(&got, &want) {
                        rep.violation(
                            "complete-set-differs",
                            format!("{} [{}] complete models: {}", b.name(), sort.name(), d),
                            replay_of(cfg, case_seed, &case, detail),
                        );
                    } else if got.first() != Some(&grounded) {
                        rep.violation(
                            "complete-first-not-grounded",
                            format!(
                                "{} [{}] first complete model {:?} is not the grounded interpretation {}",
                                b.name(),
                                sort.name(),
                                got.first().map(|m| show_vals(m)),
                                show_vals(&grounded)
                            ),
                            replay_of(cfg, case_seed, &case, detail),
                        );
                    }
                }
                Err(c) => report_caught(cfg, rep, case_seed, &case, &format!("complete.{}", b.name()), sort, &c),
            }
        }
    }
}

// ------------------------------------------------------------------------------------------
// C03

pub fn c03(cfg: &Cfg, rep: &mut Report) {
    let nm = nmax(cfg);
    if cfg.shard == 0 && !cfg.flag("no_exhaustive") {
        for (i, case) in all_tiny_adfs().iter().enumerate() {
            c03_check(cfg, rep, i as u64, case);
            rep.count("exhaustive_tiny_adfs", 1);
        }
    }
    for i in 0..cfg.cases {
        if rep.too_many() {
            break;
        }
        c03_case(cfg, rep, cfg.case_seed(i), nm);
    }
    mid_cases(cfg, rep);
}

pub fn stable_nontrivial(sem: &Sem, stable: &[Vec<Val>]) -> bool {
    let two = sem.two_valued();
    two.len() > stable.len() || stable.len() >= 2
}

pub fn c03_case(cfg: &Cfg, rep: &mut Report, case_seed: u64, nm: usize) {
    let case = small_case(case_seed, nm);
    c03_check(cfg, rep, case_seed, &case);
}

pub fn c03_check(cfg: &Cfg, rep: &mut Report, case_seed: u64, case: &SmallCase) {
    let mut rng = Rng::new(case_seed ^ 0xC03);
    let want = case.sem.stable();
    rep.evaluations += 1;
    if stable_nontrivial(&case.sem, &want) {
        rep.nontrivial.insert(hash_str(&case.g.structure_key()));
    }
    rep.count(
        match want.len() {
            0 => "adfs_without_stable_model",
            1 => "adfs_with_1_stable_model",
            _ => "adfs_with_2plus_stable_models",
        },
        1,
    );
    rep.sample(json!({"adf": case.text, "stable": want.iter().map(|m| show_vals(m)).collect::<Vec<_>>(),
        "two_valued": case.sem.two_valued().len()}));
    for sort in sorts_for(&mut rng, cfg.thorough) {
        let Some((o, perm)) = build_or_report(cfg, rep, case_seed, &case, sort) else {
            continue;
        };
        for name in stable_procs(case.bio_ok) {
            match run_stable_proc(&o, name) {
                Ok(ms) => {
                    rep.count("model_sets_compared", 1);
                    rep.count(&format!("proc.{}", name), 1);
                    rep.max("max_steps", last_steps());
                    let got = to_vals_set(&ms, &perm);
                    if let Some(d) = diff_sets(&got, &want) {
                        rep.violation(
                            &format!("stable-set-differs:{}", name),
                            format!("{} [{}] stable models: {}", name, sort.name(), d),
                            replay_of(cfg, case_seed, &case, json!({"proc": name, "sort": sort.name()})),
                        );
                    }
                }
                Err(c) => report_caught(cfg, rep, case_seed, &case, name, sort, &c),
            }
        }
    }
}

// ------------------------------------------------------------------------------------------
// C04

pub fn c04(cfg: &Cfg, rep: &mut Report) {
    let nm = nmax(cfg);
    // permanent regression witnesses (pre-study D1)
    for (i, w) in C04_WITNESSES.iter().enumerate() {
        c04_text(cfg, rep, w, i as u64);
    }
    if cfg.shard == 0 && !cfg.flag("no_exhaustive") {
        for (i, case) in all_tiny_adfs().iter().enumerate() {
            c04_check(cfg, rep, i as u64, case, &SORTS);
            rep.count("exhaustive_tiny_adfs", 1);
        }
    }
    for i in 0..cfg.cases {
        if rep.too_many() {
            break;
        }
        c04_case(cfg, rep, cfg.case_seed(i), nm);
    }
    mid_cases(cfg, rep);
}

pub const C04_WITNESSES: &[&str] = &[
    "s(a).s(b).s(c).ac(a,c).ac(b,and(b,a)).ac(c,c).",
    "s(a).s(b).s(c).s(d).ac(a,neg(b)).ac(b,neg(a)).ac(c,and(a,neg(d))).ac(d,and(b,neg(c))).",
];

fn c04_text(cfg: &Cfg, rep: &mut Report, text: &str, idx: u64) {
    // witnesses are given as text; derive the oracle through the independent recogniser
    let Some((g, sem)) = adf_from_text(text) else {
        rep.inconclusive.push(format!("witness not recognised: {}", text));
        return;
    };
    let case = SmallCase {
        g,
        text: text.to_string(),
        sem,
        bio_ok: true,
    };
    c04_check(cfg, rep, idx, &case, &[Sort::None, Sort::Lexi]);
}

/// build GenAdf + Sem from text through the independent recogniser (labels in declaration order)
pub fn adf_from_text(text: &str) -> Option<(GenAdf, Sem)> {
    let p = oracle::grammar::recognise(text).ok()?;
    let labels = p.statements.clone();
    let n = labels.len();
    let mut ac = vec![oracle::F::Bot; n];
    for (l, f) in &p.acs {
        let i = labels.iter().position(|x| x == l)?;
        ac[i] = pf_to_f(f, &labels)?;
    }
    let sem = Sem::new(&ac);
    Some((
        GenAdf {
            n,
            labels,
            ac,
            family: "witness",
        },
        sem,
    ))
}

pub fn pf_to_f(f: &oracle::grammar::PF, labels: &[String]) -> Option<oracle::F> {
    use oracle::grammar::PF;
    use oracle::F;
    Some(match f {
        PF::Top => F::Top,
        PF::Bot => F::Bot,
        PF::Atom(l) => F::Atom(labels.iter().position(|x| x == l)?),
        PF::Not(a) => F::not(pf_to_f(a, labels)?),
        PF::And(a, b) => F::and(pf_to_f(a, labels)?, pf_to_f(b, labels)?),
        PF::Or(a, b) => F::or(pf_to_f(a, labels)?, pf_to_f(b, labels)?),
        PF::Imp(a, b) => F::imp(pf_to_f(a, labels)?, pf_to_f(b, labels)?),
        PF::Xor(a, b) => F::xor(pf_to_f(a, labels)?, pf_to_f(b, labels)?),
        PF::Iff(a, b) => F::iff(pf_to_f(a, labels)?, pf_to_f(b, labels)?),
    })
}

pub fn c04_case(cfg: &Cfg, rep: &mut Report, case_seed: u64, nm: usize) {
    let case = small_case(case_seed, nm);
    let mut rng = Rng::new(case_seed ^ 0xC04);
    let sorts = sorts_for(&mut rng, cfg.thorough);
    c04_check(cfg, rep, case_seed, &case, &sorts);
}

fn c04_check(cfg: &Cfg, rep: &mut Report, case_seed: u64, case: &SmallCase, sorts: &[Sort]) {
    let want = case.sem.stable();
    rep.evaluations += 1;
    rep.sample(json!({"adf": case.text, "stable": want.iter().map(|m| show_vals(m)).collect::<Vec<_>>()}));
    let mut nontrivial = false;
    for sort in sorts {
        let Some((o, perm)) = build_or_report(cfg, rep, case_seed, case, *sort) else {
            continue;
        };
        let backends: Vec<Backend> = if case.bio_ok {
            COUNT_BACKENDS.to_vec()
        } else {
            vec![Backend::Native]
        };
        for b in backends {
            for heu_a in [true, false] {
                let name = format!("{}.count_{}", b.name(), if heu_a { "a" } else { "b" });
                match count_stable(&o, b, heu_a) {
                    Ok((ms, events)) => {
                        rep.count("model_sets_compared", 1);
                        rep.max("max_steps", last_steps());
                        let mut branches = 0;
                        let mut skipped_nonfinal = 0;
                        let mut last_cubes = 0usize;
                        for e in &events {
                            match e {
                                Event::CountBranch { goal, cubes, .. } => {
                                    branches += 1;
                                    last_cubes = *cubes;
                                    rep.count(if *goal { "branch_on_models" } else { "branch_on_countermodels" }, 1);
                                }
                                Event::CountCube { position, consistent } => {
                                    if !*consistent {
                                        rep.count("inconsistent_cubes", 1);
                                        if position + 1 < last_cubes {
                                            skipped_nonfinal += 1;
                                            rep.count("inconsistent_cubes_nonfinal", 1);
                                        }
                                    } else {
                                        rep.count("consistent_cubes", 1);
                                    }
                                }
                                _ => {}
                            }
                        }
                        if branches >= 2 && skipped_nonfinal >= 1 {
                            nontrivial = true;
                        }
                        let got = to_vals_set(&ms, &perm);
                        if let Some(d) = diff_sets(&got, &want) {
                            rep.violation(
                                "count-search-set-differs",
                                format!("{} [{}] stable models: {}", name, sort.name(), d),
                                replay_of(cfg, case_seed, case, json!({"proc": name, "sort": sort.name()})),
                            );
                        }
                    }
                    Err(c) => report_caught(cfg, rep, case_seed, case, &name, *sort, &c),
                }
            }
        }
    }
    if nontrivial {
        rep.nontrivial.insert(hash_str(&case.g.structure_key()));
    }
}

// ------------------------------------------------------------------------------------------
// C05

pub const C05_WITNESSES: &[&str] = &[
    "s(a).s(b).s(c).ac(a,a).ac(b,b).ac(c,c).",
    "s(a).s(b).s(c).s(d).ac(a,neg(b)).ac(b,neg(a)).ac(c,and(a,neg(d))).ac(d,and(b,neg(c))).",
];

pub fn c05(cfg: &Cfg, rep: &mut Report) {
    let nm = cfg.get_usize("nmax", if cfg.thorough { 7 } else { 5 });
    for (i, w) in C05_WITNESSES.iter().enumerate() {
        if let Some((g, sem)) = adf_from_text(w) {
            let case = SmallCase {
                g,
                text: w.to_string(),
                sem,
                bio_ok: true,
            };
            let rs = cfg.get_usize("rand_seeds", 16);
            c05_check(cfg, rep, i as u64, &case, rs);
        }
    }
    if cfg.shard == 0 && !cfg.flag("no_exhaustive") && cfg.get("rand_seeds").is_none() {
        for (i, case) in all_tiny_adfs().iter().enumerate() {
            c05_check(cfg, rep, i as u64, case, 2);
            rep.count("exhaustive_tiny_adfs", 1);
        }
    }
    for i in 0..cfg.cases {
        if rep.too_many() {
            break;
        }
        let case_seed = cfg.case_seed(i);
        let case = small_case(case_seed, nm);
        let rs = cfg.get_usize("rand_seeds", if cfg.thorough { 8 } else { 4 });
        c05_check(cfg, rep, case_seed, &case, rs);
    }
    // wide, loosely coupled frameworks: thousands of two-valued models, thousands of learnt nogoods
    let wide_shards = cfg.get_usize("wide_shards", 4);
    let wide = cfg.get_usize("wide_cases", if cfg.thorough { 2 } else if cfg.shard < wide_shards as u64 { 1 } else { 0 });
    for i in 0..wide {
        if rep.too_many() {
            break;
        }
        let case_seed = cfg.case_seed(1_000_000 + i);
        // (formatting every trace record of a 3000-iteration search is slow: smaller instance under the trace logger)
        let n = cfg.get_usize("wide_n", if cfg.flag("trace_log") { 8 } else if cfg.thorough && i % 2 == 1 { 11 } else { 10 });
        let case = wide_case(case_seed, n);
        rep.count("wide_cases", 1);
        rep.max("wide_case_two_valued_models", case.sem.two_valued().len() as u64);
        c05_check(cfg, rep, case_seed, &case, 1);
    }
    mid_cases(cfg, rep);
}

/// n statements that hardly constrain each other: self-supporting statements, support cycles of two,
/// and a few mutually attacking pairs. Grounding decides nothing, every combination is a two-valued model.
pub fn wide_case(case_seed: u64, n: usize) -> SmallCase {
    use oracle::F;
    let mut rng = Rng::new(case_seed ^ 0x51DE);
    let mut ac: Vec<F> = (0..n).map(F::Atom).collect();
    let style = rng.below(4);
    let mut i = 0;
    while i < n {
        let kind = if style <= 1 { 0 } else { rng.below(6) };
        if kind <= 2 || i + 1 >= n {
            ac[i] = F::Atom(i);
            i += 1;
        } else if kind <= 4 {
            ac[i] = F::Atom(i + 1);
            ac[i + 1] = F::Atom(i);
            i += 2;
        } else {
            ac[i] = F::not(F::Atom(i + 1));
            ac[i + 1] = F::not(F::Atom(i));
            i += 2;
        }
    }
    let g = GenAdf {
        n,
        labels: (0..n).map(|i| format!("w{}", i)).collect(),
        ac,
        family: "wide",
    };
    let r = g.render(&mut rng, true);
    let sem = Sem::new(&g.ac);
    SmallCase { g, text: r.text, sem, bio_ok: true }
}

pub fn c05_budget(_n: usize) -> u64 {
    // all logical steps (loop iterations, restrict and ite calls); a guard against loops outside the search loop
    50_000_000
}

/// budget of search-loop iterations. The search is chronological backtracking over a binary tree of depth
/// <= n: every iteration either pushes a choice (enters a node) or backtracks (leaves one), so a correct
/// search needs at most 4 * 2^n iterations and learning only prunes. The largest correct run observed needs
/// 2.9 * 2^n; the limit leaves 50x head-room for n <= 8 and 10x above (where one iteration is expensive).
pub fn c05_loop_limit(n: usize) -> u64 {
    if n <= 8 {
        1000 + 200 * (1u64 << n)
    } else {
        1000 + 40 * (1u64 << n.min(20))
    }
}

static CUSTOM_STATE: AtomicU64 = AtomicU64::new(0);

fn custom_next() -> u64 {
    let mut z = CUSTOM_STATE.fetch_add(0x9E3779B97F4A7C15, Ordering::Relaxed);
    z = (z ^ (z >> 30)).wrapping_mul(0xBF58476D1CE4E5B9);
    z = (z ^ (z >> 27)).wrapping_mul(0x94D049BB133111EB);
    z ^ (z >> 31)
}

fn undecided(int: &[Term]) -> Vec<usize> {
    int.iter()
        .enumerate()
        .filter(|(_, t)| !t.is_truth_value())
        .map(|(i, _)| i)
        .collect()
}

fn custom_random(_adf: &Adf, int: &[Term]) -> Option<(Var, Term)> {
    let u = undecided(int);
    if u.is_empty() {
        return None;
    }
    let r = custom_next();
    Some((Var(u[(r % u.len() as u64) as usize]), Term::from((r >> 40) & 1 == 1)))
}

fn custom_last_false(_adf: &Adf, int: &[Term]) -> Option<(Var, Term)> {
    undecided(int).last().map(|i| (Var(*i), Term::BOT))
}

fn custom_stateful(adf: &Adf, int: &[Term]) -> Option<(Var, Term)> {
    let k = CUSTOM_STATE.fetch_add(1, Ordering::Relaxed);
    match k % 3 {
        0 => custom_last_false(adf, int),
        1 => undecided(int).first().map(|i| (Var(*i), Term::BOT)),
        _ => {
            let u = undecided(int);
            u.get(u.len() / 2).map(|i| (Var(*i), Term::TOP))
        }
    }
}

fn custom_inspecting(adf: &Adf, int: &[Term]) -> Option<(Var, Term)> {
    // looks at the handles it is given and at the diagram store
    undecided(int)
        .into_iter()
        .max_by_key(|i| (adf.bdd.var_dependencies(int[*i]).len(), int[*i].value()))
        .map(|i| (Var(i), Term::from(int[i].value() % 2 == 0)))
}

pub const HEURISTICS: &[&str] = &[
    "Simple",
    "MinModMinPathsMaxVarImp",
    "MinModMaxVarImpMinPaths",
    "Rand",
    "Custom:random",
    "Custom:last_false",
    "Custom:stateful",
    "Custom:inspecting",
];

pub fn heuristic_by_name(name: &str) -> Heuristic<'static> {
    match name {
        "Simple" => Heuristic::Simple,
        "MinModMinPathsMaxVarImp" => Heuristic::MinModMinPathsMaxVarImp,
        "MinModMaxVarImpMinPaths" => Heuristic::MinModMaxVarImpMinPaths,
        "Rand" => Heuristic::Rand,
        "Custom:random" => Heuristic::Custom(&custom_random),
        "Custom:last_false" => Heuristic::Custom(&custom_last_false),
        "Custom:stateful" => Heuristic::Custom(&custom_stateful),
        "Custom:inspecting" => Heuristic::Custom(&custom_inspecting),
        _ => panic!("unknown heuristic {}", name),
    }
}

fn c05_check(cfg: &Cfg, rep: &mut Report, case_seed: u64, case: &SmallCase, rand_seeds: usize) {
    let want_stable = case.sem.stable();
    let want_two = case.sem.two_valued();
    rep.evaluations += 1;
    rep.sample(json!({"adf": case.text, "stable": want_stable.iter().map(|m| show_vals(m)).collect::<Vec<_>>(),
        "two_valued": want_two.iter().map(|m| show_vals(m)).collect::<Vec<_>>()}));
    let mut rng = Rng::new(case_seed ^ 0xC05);
    let sort = *rng.pick(&SORTS);
    let Some((o, perm)) = build_or_report(cfg, rep, case_seed, case, sort) else {
        return;
    };
    let backends: Vec<Backend> = if case.bio_ok {
        vec![Backend::Native, Backend::HybridPre, Backend::HybridNoPre]
    } else {
        vec![Backend::Native]
    };
    let budget = cfg.get("budget").and_then(|b| b.parse().ok()).unwrap_or_else(|| c05_budget(case.g.n));
    let mut nontrivial = false;
    for hname in HEURISTICS {
        if cfg.get("skip") == Some(*hname) {
            continue;
        }
        let seeds: Vec<Option<[u8; 32]>> = if *hname == "Rand" {
            (0..rand_seeds)
                .map(|k| {
                    let mut s = [0u8; 32];
                    if k < 8 {
                        // the constant seeds of the pre-study witnesses
                        s = [k as u8; 32];
                    } else {
                        for b in s.iter_mut() {
                            *b = rng.below(256) as u8;
                        }
                    }
                    Some(s)
                })
                .collect()
        } else {
            vec![None]
        };
        for seed in seeds {
            // one (backend, mode) pair per heuristic and seed keeps the cost bounded; all pairs are covered across cases
            let b = *rng.pick(&backends);
            let mode = *rng.pick(&[NgMode::StableIter, NgMode::StableChannel, NgMode::TwoValChannel]);
            if hname.starts_with("Custom") {
                CUSTOM_STATE.store(rng.next_u64(), Ordering::Relaxed);
            }
            let custom_state = CUSTOM_STATE.load(Ordering::Relaxed);
            let detail = json!({"heuristic": hname, "backend": b.name(), "mode": format!("{:?}", mode), "sort": sort.name(),
                "rand_seed": seed.map(|s| s.to_vec()), "custom_state": custom_state.to_string()});
            let loop_limit = c05_loop_limit(case.g.n);
            set_model_limit(want_two.len() as u64);
            let run = run_nogood(&o, b, mode, heuristic_by_name(hname), seed, budget, loop_limit);
            set_model_limit(u64::MAX);
            match run {
                Ok(run) => {
                    rep.count("searches", 1);
                    rep.count(&format!("heuristic.{}", hname), 1);
                    rep.count(&format!("mode.{:?}", mode), 1);
                    rep.max("max_steps", run.steps);
                    rep.max("budget", budget);
                    let want = if mode == NgMode::TwoValChannel { &want_two } else { &want_stable };
                    let got = to_vals_set(&run.models, &perm);
                    if let Some(d) = diff_sets(&got, want) {
                        rep.violation(
                            &format!("nogood-set-differs:{}", heu_class(hname)),
                            format!("{} {:?} {} [{}]: {}", hname, mode, b.name(), sort.name(), d),
                            replay_of(cfg, case_seed, case, detail.clone()),
                        );
                    }
                    if !run.disconnected {
                        rep.violation(
                            "sender-not-dropped",
                            format!("{} {:?}: channel is still connected after the call returned", hname, mode),
                            replay_of(cfg, case_seed, case, detail.clone()),
                        );
                    } else {
                        rep.count("channels_seen_disconnected", 1);
                    }
                    // trace invariants
                    let mut loops = 0u64;
                    let mut backtracks = 0u64;
                    let mut learned = 0u64;
                    let mut accepted = 0usize;
                    for e in &run.events {
                        match e {
                            Event::LoopTop { choice_entries, history_len, .. } => {
                                loops += 1;
                                if choice_entries != history_len {
                                    rep.violation(
                                        "search-stacks-out-of-step",
                                        format!("{}: {} choice entries on the stack but {} saved interpretations", hname, choice_entries, history_len),
                                        replay_of(cfg, case_seed, case, detail.clone()),
                                    );
                                    break;
                                }
                            }
                            Event::Choice { var, was_decided, .. } => {
                                rep.count("choices", 1);
                                if *was_decided {
                                    rep.violation(
                                        &format!("choice-on-decided-statement:{}", heu_class(hname)),
                                        format!("{} chose statement {} which is already decided", hname, var),
                                        replay_of(cfg, case_seed, case, detail.clone()),
                                    );
                                    break;
                                }
                            }
                            Event::Backtrack { learned: l, .. } => {
                                backtracks += 1;
                                learned += *l as u64;
                            }
                            Event::TwoValued { accepted: a } => {
                                if *a {
                                    accepted += 1;
                                }
                            }
                            Event::NogoodConflict => rep.count("nogood_conflicts", 1),
                            Event::AcConflict => rep.count("ac_conflicts", 1),
                            _ => {}
                        }
                    }
                    rep.count("loop_iterations", loops);
                    rep.count("backtracks", backtracks);
                    rep.count("nogoods_learned", learned);
                    rep.max("max_loop_iterations", loops);
                    rep.max(&format!("max_loop_iterations_n{}", case.g.n), loops);
                    rep.max(&format!("loop_limit_n{}", case.g.n), loop_limit);
                    if accepted != run.models.len() {
                        rep.violation(
                            "models-sent-vs-accepted",
                            format!("{}: {} models accepted in the loop but {} delivered", hname, accepted, run.models.len()),
                            replay_of(cfg, case_seed, case, detail.clone()),
                        );
                    }
                    if backtracks >= 1 && learned >= 1 && loops >= 3 {
                        nontrivial = true;
                    }
                }
                Err(Caught::Repeat(k)) => {
                    rep.violation(
                        &format!("nogood-model-reached-again:{}", heu_class(hname)),
                        format!("{} {:?} {}: the search arrived at a two-valued fixpoint for the {}th time, the framework has only {} two-valued models (one was reached again, or a non-model was taken for one)", hname, mode, b.name(), k, want_two.len()),
                        replay_of(cfg, case_seed, case, detail),
                    );
                }
                Err(Caught::Budget(steps)) => {
                    rep.violation(
                        &format!("nogood-no-termination:{}", heu_class(hname)),
                        format!("{} {:?} {}: search did not finish within {} logical steps (loop limit {}, step budget {})", hname, mode, b.name(), steps, loop_limit, budget),
                        replay_of(cfg, case_seed, case, detail),
                    );
                }
                Err(c) => {
                    rep.violation(
                        &format!("nogood-panic:{}", heu_class(hname)),
                        format!("{} {:?} {}: {}", hname, mode, b.name(), c.describe()),
                        replay_of(cfg, case_seed, case, detail),
                    );
                }
            }
        }
    }
    if nontrivial {
        rep.nontrivial.insert(hash_str(&case.g.structure_key()));
    }
    // consumer-loop variant: solver thread + consumer thread, `for m in r` must end.
    // The sender handed in may be of any flavour: unbounded, bounded, rendezvous (capacity 0).
    if rng.chance(1, 2) {
        let cap = *rng.pick(&[None, None, Some(0usize), Some(1), Some(2), Some(3)]);
        let two_val = rng.bool();
        let slow = rng.below(3);
        let want = if two_val { &want_two } else { &want_stable };
        c05_threaded(cfg, rep, case_seed, case, &o, &perm, want, sort, cap, two_val, slow);
    }
}

fn heu_class(h: &str) -> &str {
    if h.starts_with("Custom") {
        "Custom"
    } else {
        h
    }
}

#[allow(clippy::too_many_arguments)]
fn c05_threaded(
    cfg: &Cfg,
    rep: &mut Report,
    case_seed: u64,
    case: &SmallCase,
    o: &Objs,
    perm: &[usize],
    want: &[Vec<Val>],
    sort: Sort,
    capacity: Option<usize>,
    two_val: bool,
    slow: usize,
) {
    let text = o.text.clone();
    let budget = c05_budget(case.g.n);
    let (s, r) = match capacity {
        None => crossbeam_channel::unbounded::<Vec<Term>>(),
        Some(c) => crossbeam_channel::bounded::<Vec<Term>>(c),
    };
    rep.count(&format!("threaded_channel_capacity_{}", capacity.map(|c| c.to_string()).unwrap_or_else(|| "unbounded".into())), 1);
    let solver = std::thread::Builder::new()
        .stack_size(64 << 20)
        .spawn(move || {
            guarded(budget, || {
                let mut adf = parse_native(&text, sort);
                if two_val {
                    adf.two_val_nogood_channel(Heuristic::Simple, s);
                } else {
                    adf.stable_nogood_channel(Heuristic::Simple, s);
                }
            })
        })
        .expect("spawn");
    // a consumer that starts late and/or is slower than the solver
    if slow >= 1 {
        std::thread::sleep(std::time::Duration::from_millis(2));
    }
    // consumer loop: must end because the solver drops its sender. Decided on a logical
    // condition (solver thread finished, channel drained, still connected), not on wall-clock time.
    let mut got_models = Vec::new();
    let mut ended = true;
    loop {
        match r.recv_timeout(std::time::Duration::from_millis(20)) {
            Ok(m) => {
                got_models.push(m);
                if slow == 2 {
                    std::thread::sleep(std::time::Duration::from_micros(300));
                } else {
                    std::thread::yield_now();
                }
            }
            Err(crossbeam_channel::RecvTimeoutError::Disconnected) => break,
            Err(crossbeam_channel::RecvTimeoutError::Timeout) => {
                if solver.is_finished() {
                    match r.try_recv() {
                        Ok(m) => got_models.push(m),
                        Err(crossbeam_channel::TryRecvError::Disconnected) => break,
                        Err(crossbeam_channel::TryRecvError::Empty) => {
                            ended = false;
                            break;
                        }
                    }
                }
            }
        }
    }
    let res = solver.join();
    if ended {
        rep.count("threaded_consumer_loops_ended", 1);
    } else {
        rep.violation(
            "consumer-loop-would-not-end",
            "solver thread finished, channel drained, but the sender is still alive".into(),
            replay_of(cfg, case_seed, case, json!({"threaded": true, "sort": sort.name()})),
        );
    }
    match res {
        Ok(Ok(())) => {
            let got = to_vals_set(&got_models, perm);
            if let Some(d) = diff_sets(&got, want) {
                rep.violation(
                    "nogood-threaded-set-differs",
                    d,
                    replay_of(cfg, case_seed, case, json!({"threaded": true, "sort": sort.name(), "capacity": capacity, "two_valued": two_val})),
                );
            }
        }
        Ok(Err(c)) => rep.violation(
            &format!("nogood-threaded:{}", c.kind()),
            c.describe(),
            replay_of(cfg, case_seed, case, json!({"threaded": true})),
        ),
        Err(_) => rep.inconclusive.push("solver thread could not be joined".into()),
    }
}

/// value helpers used by other modules
pub fn vals_all_decided(v: &[Val]) -> bool {
    v.iter().all(|x| *x == VT || *x == VF)
}

// ------------------------------------------------------------------------------------------
// C02 - C05 on mid-size frameworks: far beyond 3^n enumeration, still judged by definition.
//
// 12 - 40 statements (thorough: up to 60); the grounded interpretation (support-bounded operator) leaves k <= 10
// statements undecided. Every fixpoint of the operator refines the least one, so the complete models are the
// fixpoints among the 3^k refinements of the grounded interpretation, the two-valued models the total ones among its
// 2^k completions, and the stable models those that the reduct re-derives - all computed without a decision diagram.

pub struct MidCase {
    pub g: GenAdf,
    pub text: String,
    pub grounded: Vec<Val>,
    pub undecided: usize,
    pub complete: Option<Vec<Vec<Val>>>,
    pub two: Vec<Vec<Val>>,
    pub stable: Vec<Vec<Val>>,
}

pub fn mid_case(case_seed: u64, thorough: bool) -> MidCase {
    let mut rng = Rng::new(case_seed ^ 0x3D1D);
    let n = rng.range(12, if thorough { 60 } else { 40 });
    let block = rng.range(2, if thorough { 10 } else { 8 });
    let g = oracle::gen::gen_mid(&mut rng, n, block);
    let r = g.render(&mut rng, true);
    let sem = BigSem::new(&g.ac);
    let (grounded, und) = sem.undecided_after_grounding();
    let complete = sem.complete(if thorough { 8 } else { 7 });
    let two = sem.two_valued(12).expect("block of at most ten statements");
    let stable = two.iter().filter(|v| sem.is_stable(v)).cloned().collect();
    MidCase { g, text: r.text, grounded, undecided: und.len(), complete, two, stable }
}

/// loop budget of the nogood search on a framework with k statements left undecided by grounding (see c05_loop_limit)
pub fn mid_loop_limit(k: usize) -> u64 {
    2000 + 200 * (1u64 << k.min(20))
}

pub fn mid_cases(cfg: &Cfg, rep: &mut Report) {
    let count = cfg.get_usize("mid", if cfg.thorough { 300 } else { 40 });
    for i in 0..count {
        if rep.too_many() {
            break;
        }
        mid_check(cfg, rep, cfg.case_seed(4_000_000 + i));
    }
}

pub fn mid_check(cfg: &Cfg, rep: &mut Report, case_seed: u64) {
    let case = mid_case(case_seed, cfg.thorough);
    let mut rng = Rng::new(case_seed ^ 0x111D);
    rep.evaluations += 1;
    rep.count("mid_cases", 1);
    rep.max("mid_max_statements", case.g.n as u64);
    rep.max("mid_max_undecided_after_grounding", case.undecided as u64);
    rep.max("mid_max_two_valued_models", case.two.len() as u64);
    rep.max("mid_max_stable_models", case.stable.len() as u64);
    if let Some(c) = &case.complete {
        rep.max("mid_max_complete_models", c.len() as u64);
    }
    if case.two.len() > case.stable.len() || case.stable.len() >= 2 {
        rep.nontrivial.insert(hash_str(&case.g.structure_key()));
    }
    let replay = |detail: Value| json!({"property": cfg.prop, "case_seed": case_seed.to_string(), "mid": true, "adf": case.text, "detail": detail});
    let budget = SMALL_BUDGET * 50;
    let sorts: Vec<Sort> = if cfg.thorough { SORTS.to_vec() } else { vec![*rng.pick(&SORTS)] };
    for sort in sorts {
        let o = match build(&case.text, sort, true) {
            Ok(o) => o,
            Err(e) => {
                rep.violation("build-failed-mid", e.describe(), replay(json!({"sort": sort.name()})));
                continue;
            }
        };
        let Some(perm) = perm_of(&o.names, &case.g) else {
            rep.violation("names-not-a-permutation", "mid".into(), replay(json!({"sort": sort.name()})));
            continue;
        };
        match cfg.prop.as_str() {
            "c02" => {
                let Some(want) = &case.complete else {
                    rep.count("mid_cases_too_many_undecided_for_complete", 1);
                    continue;
                };
                for b in BACKENDS {
                    let r = guarded(budget, || -> Models {
                        match b {
                            Backend::Bio => o.bio.as_ref().unwrap().complete().collect(),
                            _ => fresh_adf(&o, b).unwrap().complete().collect(),
                        }
                    });
                    match r {
                        Ok(ms) => {
                            rep.count("mid_model_sets_compared", 1);
                            rep.count("models_compared", ms.len() as u64);
                            let got = to_vals_set(&ms, &perm);
                            let detail = json!({"backend": b.name(), "sort": sort.name()});
                            if let Some(d) = diff_sets(&got, want) {
                                rep.violation("complete-set-differs-mid", format!("{} [{}] complete models of {} statements: {}", b.name(), sort.name(), case.g.n, d), replay(detail));
                            } else if got.first() != Some(&case.grounded) {
                                rep.violation("complete-first-not-grounded", format!("{} [{}] first complete model is not the grounded interpretation ({} statements)", b.name(), sort.name(), case.g.n), replay(detail));
                            }
                        }
                        Err(c) => rep.violation(&format!("complete-mid:{}", c.kind()), format!("{} {}", b.name(), c.describe()), replay(json!({"backend": b.name(), "sort": sort.name()}))),
                    }
                }
            }
            "c03" => {
                for name in stable_procs(true) {
                    let r = guarded(budget, || run_stable_proc(&o, name));
                    match r {
                        Ok(Ok(ms)) => {
                            rep.count("mid_model_sets_compared", 1);
                            rep.count(&format!("proc.{}", name), 1);
                            let got = to_vals_set(&ms, &perm);
                            if let Some(d) = diff_sets(&got, &case.stable) {
                                rep.violation(&format!("stable-set-differs:{}", name), format!("{} [{}] stable models of {} statements: {}", name, sort.name(), case.g.n, d), replay(json!({"proc": name, "sort": sort.name()})));
                            }
                        }
                        Ok(Err(c)) | Err(c) => rep.violation(&format!("stable-mid:{}", c.kind()), format!("{} {}", name, c.describe()), replay(json!({"proc": name, "sort": sort.name()}))),
                    }
                }
            }
            "c04" => {
                for b in COUNT_BACKENDS {
                    for heu_a in [true, false] {
                        let name = format!("{}.count_{}", b.name(), if heu_a { "a" } else { "b" });
                        match count_stable(&o, b, heu_a) {
                            Ok((ms, events)) => {
                                rep.count("mid_model_sets_compared", 1);
                                rep.count("mid_count_branches", events.iter().filter(|e| matches!(e, Event::CountBranch { .. })).count() as u64);
                                let got = to_vals_set(&ms, &perm);
                                if let Some(d) = diff_sets(&got, &case.stable) {
                                    rep.violation("count-search-set-differs", format!("{} [{}] stable models of {} statements: {}", name, sort.name(), case.g.n, d), replay(json!({"proc": name, "sort": sort.name()})));
                                }
                            }
                            Err(c) => rep.violation(&format!("count-search-mid:{}", c.kind()), format!("{} {}", name, c.describe()), replay(json!({"proc": name, "sort": sort.name()}))),
                        }
                    }
                }
            }
            "c05" => {
                let loop_limit = mid_loop_limit(case.undecided);
                for hname in HEURISTICS {
                    let b = *rng.pick(&[Backend::Native, Backend::HybridPre, Backend::HybridNoPre]);
                    let mode = *rng.pick(&[NgMode::StableIter, NgMode::StableChannel, NgMode::TwoValChannel]);
                    let seed = if *hname == "Rand" {
                        let mut s = [0u8; 32];
                        for x in s.iter_mut() {
                            *x = rng.below(256) as u8;
                        }
                        Some(s)
                    } else {
                        None
                    };
                    if hname.starts_with("Custom") {
                        CUSTOM_STATE.store(rng.next_u64(), Ordering::Relaxed);
                    }
                    let detail = json!({"heuristic": hname, "backend": b.name(), "mode": format!("{:?}", mode), "sort": sort.name(),
                        "rand_seed": seed.map(|s| s.to_vec()), "custom_state": CUSTOM_STATE.load(Ordering::Relaxed).to_string()});
                    set_model_limit(case.two.len() as u64);
                    let run = run_nogood(&o, b, mode, heuristic_by_name(hname), seed, budget, loop_limit);
                    set_model_limit(u64::MAX);
                    match run {
                        Ok(run) => {
                            rep.count("mid_searches", 1);
                            rep.count(&format!("heuristic.{}", hname), 1);
                            let loops = run.events.iter().filter(|e| matches!(e, Event::LoopTop { .. })).count() as u64;
                            rep.max("mid_max_loop_iterations", loops);
                            // iterations per 2^k, in hundredths: the head-room of the loop budget is visible in the evidence
                            rep.max("mid_max_loop_iterations_per_2pow_k_x100", loops * 100 / (1u64 << case.undecided.min(20)));
                            let want = if mode == NgMode::TwoValChannel { &case.two } else { &case.stable };
                            let got = to_vals_set(&run.models, &perm);
                            if let Some(d) = diff_sets(&got, want) {
                                rep.violation(&format!("nogood-set-differs:{}", heu_class(hname)), format!("{} {:?} {} [{}] on {} statements: {}", hname, mode, b.name(), sort.name(), case.g.n, d), replay(detail.clone()));
                            }
                            if !run.disconnected {
                                rep.violation("sender-not-dropped", format!("{} {:?}: channel is still connected after the call returned", hname, mode), replay(detail.clone()));
                            }
                        }
                        Err(Caught::Repeat(k)) => rep.violation(
                            &format!("nogood-model-reached-again:{}", heu_class(hname)),
                            format!("{} {:?} {}: the search arrived at a two-valued fixpoint for the {}th time, the framework ({} statements) has only {} two-valued models", hname, mode, b.name(), k, case.g.n, case.two.len()),
                            replay(detail),
                        ),
                        Err(Caught::Budget(steps)) => rep.violation(
                            &format!("nogood-no-termination:{}", heu_class(hname)),
                            format!("{} {:?} {}: search on {} statements ({} undecided after grounding) did not finish within {} logical steps (loop limit {})", hname, mode, b.name(), case.g.n, case.undecided, steps, loop_limit),
                            replay(detail),
                        ),
                        Err(c) => rep.violation(&format!("nogood-panic:{}", heu_class(hname)), format!("{} {:?} {}: {}", hname, mode, b.name(), c.describe()), replay(detail)),
                    }
                }
            }
            _ => {}
        }
    }
}
