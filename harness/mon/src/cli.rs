//! C15 (CLI faithfulness) plus the CLI legs of C08 (malformed input) and C14 (export / import).
//! The binary built from the current tree is run as a process; stdout and exit status are compared
//! with lines constructed from the oracle's interpretations.

use crate::common::*;
use crate::pipes::*;
use crate::sem::{small_case, SmallCase};
use oracle::gen::{gen_adf, spell, LabelMode};
use oracle::{show_vals, Rng, Val, VF, VT};
use serde_json::json;
use std::collections::BTreeMap;
use std::path::{Path, PathBuf};
use std::process::Command;

pub struct Out {
    pub code: Option<i32>,
    pub stdout: String,
    pub stderr: String,
    /// killed by the harness after it made no progress at all for 15 s (see `run_cli`)
    pub hung: bool,
}

/// CPU time (user + system, clock ticks) of a process and whether every one of its threads is sleeping
fn cpu_and_sleeping(pid: u32) -> Option<(u64, bool)> {
    let stat = std::fs::read_to_string(format!("/proc/{}/stat", pid)).ok()?;
    // fields after the closing bracket of the command name
    let rest = &stat[stat.rfind(')')? + 2..];
    let f: Vec<&str> = rest.split(' ').collect();
    let cpu = f.get(11)?.parse::<u64>().ok()? + f.get(12)?.parse::<u64>().ok()?;
    let mut all_sleeping = true;
    for t in std::fs::read_dir(format!("/proc/{}/task", pid)).ok()? {
        let t = t.ok()?;
        let ts = std::fs::read_to_string(t.path().join("stat")).unwrap_or_default();
        if let Some(p) = ts.rfind(')') {
            let state = ts[p + 2..].chars().next().unwrap_or('?');
            if state != 'S' {
                all_sleeping = false;
            }
        }
    }
    Some((cpu, all_sleeping))
}

/// Run the CLI to its end. Verdict on a run that does not end is by progress, not by wall clock: the run is
/// "hung" when, for 15 s on end, every thread of the process sleeps and its CPU time does not advance, while
/// both of its output pipes are being drained and it has no input to wait for. A process that is still
/// computing after 900 s is an error of the harness (inconclusive), never a verdict.
pub fn run_cli(cli: &str, args: &[String], wrapper: &[String]) -> Result<Out, String> {
    run_cli_env(cli, args, wrapper, &[])
}

/// like `run_cli`, with additional environment variables for the process
pub fn run_cli_env(cli: &str, args: &[String], wrapper: &[String], envs: &[(&str, &str)]) -> Result<Out, String> {
    use std::io::Read;
    use std::process::Stdio;
    use std::time::{Duration, Instant};
    let mut cmd = if wrapper.is_empty() {
        Command::new(cli)
    } else {
        let mut c = Command::new(&wrapper[0]);
        c.args(&wrapper[1..]);
        c.arg(cli);
        c
    };
    cmd.args(args);
    cmd.env_remove("RUST_LOG");
    cmd.env("RUST_BACKTRACE", "0");
    for (k, v) in envs {
        cmd.env(k, v);
    }
    cmd.stdin(Stdio::null()).stdout(Stdio::piped()).stderr(Stdio::piped());
    let mut child = cmd.spawn().map_err(|e| format!("cannot run {}: {}", cli, e))?;
    let mut so = child.stdout.take().expect("piped stdout");
    let mut se = child.stderr.take().expect("piped stderr");
    let t_out = std::thread::spawn(move || {
        let mut b = Vec::new();
        let _ = so.read_to_end(&mut b);
        b
    });
    let t_err = std::thread::spawn(move || {
        let mut b = Vec::new();
        let _ = se.read_to_end(&mut b);
        b
    });
    let start = Instant::now();
    let mut pause = Duration::from_micros(500);
    let mut last_cpu: Option<u64> = None;
    let mut idle_since = Instant::now();
    let mut hung = false;
    let status = loop {
        match child.try_wait() {
            Ok(Some(st)) => break Some(st),
            Ok(None) => {}
            Err(e) => return Err(format!("cannot wait for {}: {}", cli, e)),
        }
        std::thread::sleep(pause);
        if pause < Duration::from_millis(50) {
            pause *= 2;
        }
        if start.elapsed() > Duration::from_secs(5) {
            match cpu_and_sleeping(child.id()) {
                Some((cpu, true)) if last_cpu == Some(cpu) => {
                    if idle_since.elapsed() > Duration::from_secs(15) {
                        hung = true;
                        let _ = child.kill();
                        let _ = child.wait();
                        break None;
                    }
                }
                Some((cpu, _)) => {
                    last_cpu = Some(cpu);
                    idle_since = Instant::now();
                }
                None => {
                    idle_since = Instant::now();
                }
            }
        }
        if start.elapsed() > Duration::from_secs(900) {
            let _ = child.kill();
            let _ = child.wait();
            let _ = t_out.join();
            let _ = t_err.join();
            return Err(format!("{} {:?} is still computing after 900 s", cli, args));
        }
    };
    let stdout = t_out.join().unwrap_or_default();
    let stderr = t_err.join().unwrap_or_default();
    Ok(Out {
        code: status.and_then(|s| s.code()),
        hung,
        stdout: String::from_utf8_lossy(&stdout).to_string(),
        stderr: String::from_utf8_lossy(&stderr).to_string(),
    })
}

fn tmp_dir(cfg: &Cfg) -> PathBuf {
    let base = cfg
        .get("tmp")
        .map(PathBuf::from)
        .unwrap_or_else(|| std::env::temp_dir().join("mon-cli"));
    let d = base.join(format!("shard{}-{}", cfg.shard, std::process::id()));
    std::fs::create_dir_all(&d).expect("create temp dir");
    d
}

fn line_of(v: &[Val], names_in_order: &[(usize, &String)]) -> String {
    let mut s = String::new();
    for (o, label) in names_in_order {
        let c = match v[*o] {
            VT => 'T',
            VF => 'F',
            _ => 'u',
        };
        s.push_str(&format!("{}({}) ", c, label));
    }
    s
}

const SEM_FLAGS: [&str; 10] = ["--grd", "--com", "--stm", "--stmpre", "--stmrew", "--stmrew2", "--stmca", "--stmcb", "--stmng", "--twoval"];
const HEUS: [&str; 4] = ["Simple", "MinModMinPathsMaxVarImp", "MinModMaxVarImpMinPaths", "Rand"];

/// sections a library mode wires (documented interface: help text + the three arms)
fn wired(lib: &str, flag: &str) -> bool {
    match lib {
        "hybrid" => true,
        "biodivine" => matches!(flag, "--grd" | "--com" | "--stm" | "--stmrew" | "--stmrew2"),
        _ => matches!(flag, "--grd" | "--com" | "--stm" | "--stmng"),
    }
}

fn looks_like_interpretation(line: &str) -> bool {
    line.starts_with("T(") || line.starts_with("F(") || line.starts_with("u(")
}

pub fn c15(cfg: &Cfg, rep: &mut Report) {
    let Some(cli) = cfg.get("cli").map(|s| s.to_string()) else {
        rep.inconclusive.push("no --cli given".into());
        return;
    };
    let dir = tmp_dir(cfg);
    let wrapper: Vec<String> = cfg.get("wrapper").map(|w| w.split(' ').map(|s| s.to_string()).collect()).unwrap_or_default();
    if cfg.shard == 0 && !cfg.flag("only_malformed") && cfg.get("only_flags").is_none() {
        c15_known_probes(cfg, rep, &cli, &dir);
    }
    for i in 0..cfg.cases {
        if rep.too_many() {
            break;
        }
        c15_case(cfg, rep, cfg.case_seed(i), &cli, &dir, &wrapper);
    }
    if !cfg.flag("only_malformed") {
        for i in 0..cfg.get_usize("big_cli_cases", if cfg.thorough { 4 } else { 1 }) {
            if rep.too_many() {
                break;
            }
            c15_big(cfg, rep, cfg.case_seed(9_000_000 + i), &cli, &dir, &wrapper);
        }
        for i in 0..cfg.get_usize("mid_cli_cases", if cfg.thorough { 12 } else { 3 }) {
            if rep.too_many() {
                break;
            }
            c15_mid(cfg, rep, cfg.case_seed(4_000_000 + i), &cli, &dir, &wrapper);
        }
        for i in 0..cfg.get_usize("wide_cases", if cfg.thorough { 4 } else { 1 }) {
            if rep.too_many() {
                break;
            }
            c15_wide(cfg, rep, cfg.case_seed(2_000_000 + i), &cli, &dir, &wrapper);
        }
    }
    let _ = std::fs::remove_dir_all(&dir);
}

/// labels the line based comparison can handle: no line breaks
fn printable(case: &SmallCase) -> bool {
    case.g.labels.iter().all(|l| !l.contains('\n') && !l.contains('\r'))
}

fn c15_known_probes(_cfg: &Cfg, rep: &mut Report, cli: &str, dir: &Path) {
    // pre-study D9: labels with characters biodivine refuses abort the biodivine and hybrid arms
    let text = "s(\"a(b\").ac(\"a(b\",c(v)).";
    let f = dir.join("d9.adf");
    std::fs::write(&f, text).expect("write");
    for lib in ["hybrid", "biodivine"] {
        let args: Vec<String> = vec!["--lib".into(), lib.into(), "--grd".into(), f.to_string_lossy().to_string()];
        match run_cli(cli, &args, &[]) {
            Ok(out) => {
                rep.count("known_finding_probes", 1);
                if out.code != Some(0) || out.stdout != "T(a(b) \n" {
                    let sig = if out.stderr.contains("Variable name") && out.stderr.contains("is invalid") {
                        "cli-bio-forbidden-label-char"
                    } else {
                        "cli-valid-input-fails"
                    };
                    rep.violation(
                        sig,
                        format!("--lib {} on {:?}: exit {:?}, stdout {:?}", lib, text, out.code, out.stdout),
                        json!({"property": "c15", "text": text, "args": args}),
                    );
                }
            }
            Err(e) => rep.inconclusive.push(e),
        }
    }
}

pub fn c15_case(cfg: &Cfg, rep: &mut Report, case_seed: u64, cli: &str, dir: &Path, wrapper: &[String]) {
    let nm = cfg.get_usize("nmax", if cfg.thorough { 7 } else { 5 });
    let case = small_case(case_seed, nm);
    c15_run(cfg, rep, case_seed, case, cli, dir, wrapper, false, None);
}

/// wide frameworks (9 to 11 loosely coupled statements, hundreds of two-valued models): long model streams
pub fn c15_wide(cfg: &Cfg, rep: &mut Report, case_seed: u64, cli: &str, dir: &Path, wrapper: &[String]) {
    let mut rng = Rng::new(case_seed ^ 0x31DE);
    // (9 to 11 statements in the quick tier: up to 2048 two-valued models; thorough: up to 12 statements, 4096 models)
    let n = cfg.get_usize("wide_n", 9 + rng.below(if cfg.thorough { 4 } else { 3 }));
    let case = crate::sem::wide_case(case_seed, n);
    rep.count("wide_cases", 1);
    rep.max("wide_case_two_valued_models", case.sem.two_valued().len() as u64);
    c15_run(cfg, rep, case_seed, case, cli, dir, wrapper, true, None);
}

/// mid-size frameworks (12 to 60 statements, up to ten left undecided by grounding): every flag, every library mode,
/// judged by the definitional answers found among the refinements of the grounded interpretation
pub fn c15_mid(cfg: &Cfg, rep: &mut Report, case_seed: u64, cli: &str, dir: &Path, wrapper: &[String]) {
    let m = crate::sem::mid_case(case_seed, cfg.thorough);
    rep.count("mid_cli_cases", 1);
    rep.max("max_statements_in_a_cli_run_with_all_flags", m.g.n as u64);
    rep.max("mid_max_two_valued_models", m.two.len() as u64);
    let case = SmallCase { g: m.g.clone(), text: m.text.clone(), sem: oracle::sem::Sem::from_tts(Vec::new()), bio_ok: m.g.bio_safe() };
    c15_run(cfg, rep, case_seed, case, cli, dir, wrapper, false, Some(&m));
}

#[allow(clippy::too_many_arguments)]
fn c15_run(cfg: &Cfg, rep: &mut Report, case_seed: u64, mut case: SmallCase, cli: &str, dir: &Path, wrapper: &[String], wide: bool, mid: Option<&crate::sem::MidCase>) {
    let mut rng = Rng::new(case_seed ^ 0xC15);
    if !printable(&case) {
        // re-draw labels without line breaks, keep the structure
        let g = gen_adf(&mut Rng::new(case_seed ^ 1), case.g.n, LabelMode::BioSafe);
        if g.labels.iter().any(|l| l.contains('\n') || l.contains('\r')) {
            return;
        }
        let mut g2 = case.g.clone();
        g2.labels = g.labels;
        let r = g2.render(&mut rng, true);
        case = SmallCase { sem: oracle::sem::Sem::new(&g2.ac), bio_ok: g2.bio_safe(), g: g2, text: r.text };
    }
    rep.evaluations += 1;
    let file = dir.join(format!("case-{}.adf", case_seed));
    std::fs::write(&file, &case.text).expect("write case file");
    // (a wide framework has 3^n complete interpretations: its complete section is not requested; the same holds for
    // a mid-size framework with too many statements left undecided by grounding)
    let no_complete = wide || mid.map(|m| m.complete.is_none()).unwrap_or(false);
    let (grounded, complete, stable, twoval) = match mid {
        Some(m) => (m.grounded.clone(), m.complete.clone().unwrap_or_default(), m.stable.clone(), m.two.clone()),
        None => (case.sem.grounded(), if wide { Vec::new() } else { case.sem.complete() }, case.sem.stable(), case.sem.two_valued()),
    };
    // statement order per sort flag
    let rec = oracle::grammar::recognise(&case.text).expect("generated text is valid");
    let decl: Vec<String> = rec.statements.clone();
    let mut nontrivial = false;
    for lib in ["naive", "biodivine", "hybrid"] {
        if cfg.flag("only_malformed") {
            break;
        }
        if lib != "naive" && !case.bio_ok {
            continue;
        }
        let sortflag = *rng.pick(&["", "--lx", "--an"]);
        let order: Vec<String> = match sortflag {
            "--lx" => {
                let mut s = decl.clone();
                s.sort_by(|a, b| a.as_bytes().cmp(b.as_bytes()));
                s
            }
            "--an" => match build(&case.text, Sort::Alnum, false) {
                Ok(o) => o.names,
                Err(e) => {
                    rep.inconclusive.push(format!("cannot determine alphanumeric order: {}", e.describe()));
                    return;
                }
            },
            _ => decl.clone(),
        };
        let names_in_order: Vec<(usize, &String)> = order
            .iter()
            .map(|l| (case.g.labels.iter().position(|x| x == l).expect("label known"), l))
            .collect();
        let line = |v: &Vec<Val>| line_of(v, &names_in_order);
        // flags
        let mut flags: Vec<&str> = SEM_FLAGS.iter().copied().filter(|f| rng.chance(2, 5) && !(no_complete && *f == "--com")).collect();
        if flags.is_empty() {
            flags.push(*rng.pick(&SEM_FLAGS[2..]));
        }
        if wide && !flags.contains(&"--twoval") && rng.chance(3, 4) {
            flags.push("--twoval");
        }
        // a leg of another property's check: only that property's observation points at the command line
        // (`--only_flags grd,com`: a non-empty random subset of the named flags)
        if let Some(only) = cfg.get("only_flags") {
            let names: Vec<String> = only.split(',').map(|f| format!("--{}", f)).collect();
            let allowed: Vec<&str> = SEM_FLAGS.iter().copied().filter(|f| names.iter().any(|n| n == f) && !(no_complete && *f == "--com")).collect();
            if allowed.is_empty() {
                continue;
            }
            flags = allowed.iter().copied().filter(|_| rng.chance(1, 2)).collect();
            if flags.is_empty() {
                flags.push(*rng.pick(&allowed));
            }
        }
        let heu: Option<&str> = if rng.chance(1, 2) { Some(*rng.pick(&HEUS)) } else { None };
        let mut args: Vec<String> = vec!["--lib".into(), lib.into()];
        if !sortflag.is_empty() {
            args.push(sortflag.into());
        }
        for f in &flags {
            args.push(f.to_string());
        }
        if let Some(h) = heu {
            args.push("--heu".into());
            args.push(h.into());
        }
        // logging options must not change what is printed on stdout
        // (`--always_verbose`: the leg that drives the dev-profile binary always switches debug or trace logging on)
        let verbose_env = cfg.flag("always_verbose") && rng.chance(1, 3);
        match if cfg.flag("always_verbose") { if verbose_env { 99 } else { *rng.pick(&[1usize, 2, 1, 2, 4]) } } else { rng.below(12) } {
            0 => args.push("-v".into()),
            1 => args.push("-vv".into()),
            2 => args.push("-vvv".into()),
            3 => args.push("-q".into()),
            4 => {
                args.push("--rust_log".into());
                args.push((*rng.pick(&["debug", "trace", "info", "error"])).to_string());
            }
            _ => {}
        }
        // the environment variable the logger documents, too
        let envs: Vec<(&str, &str)> = if verbose_env {
            vec![("RUST_LOG", *rng.pick(&["trace", "debug"]))]
        } else if rng.chance(1, 10) { vec![("RUST_LOG", *rng.pick(&["trace", "debug", "adf_bdd=trace", "warn"]))] } else { Vec::new() };
        // model counting output (naive and hybrid mode only): one extra first line
        let counter = lib != "biodivine" && rng.chance(1, 4);
        if counter {
            args.push("--counter".into());
            args.push("nai".into());
        }
        args.push(file.to_string_lossy().to_string());
        let replay = json!({"property": "c15", "case_seed": case_seed.to_string(), "adf": case.text, "args": args, "env": envs.iter().map(|(k, v)| format!("{}={}", k, v)).collect::<Vec<_>>()});
        let out = match run_cli_env(cli, &args, wrapper, &envs) {
            Ok(o) => o,
            Err(e) => {
                rep.inconclusive.push(e);
                return;
            }
        };
        rep.count("invocations", 1);
        rep.count(&format!("lib.{}", lib), 1);
        if out.hung {
            rep.violation(
                "cli-hangs",
                format!("{:?}: every thread of the process slept without using any CPU time for 15 s (killed); {} bytes had been printed", args, out.stdout.len()),
                replay,
            );
            return;
        }
        if out.code != Some(0) {
            let sig = if out.code == Some(97) {
                "cli-valgrind-report"
            } else if heu.is_some() && out.stderr.contains("Mismatch between definition and access") {
                "cli-heu-option-panics"
            } else if out.stderr.contains("Variable name") && out.stderr.contains("is invalid") {
                "cli-bio-forbidden-label-char"
            } else {
                "cli-valid-input-fails"
            };
            rep.violation(
                sig,
                format!("exit status {:?} for {:?}; stderr: {}", out.code, args, out.stderr.chars().take(300).collect::<String>()),
                replay,
            );
            return;
        }
        // expected sections
        let mut lines: Vec<&str> = out.stdout.split('\n').collect();
        if lines.last() == Some(&"") {
            lines.pop();
        } else {
            rep.violation("cli-output-not-line-terminated", format!("stdout {:?}", out.stdout), replay);
            return;
        }
        let mut pos = 0;
        if counter {
            // `ModelCounts { cmodels: X, models: Y } ` per statement in printing order; the ratio must be exact
            let Some(first) = lines.first() else {
                rep.violation("cli-counter-line-missing", format!("{:?}: no output", args), replay);
                return;
            };
            let nums: Vec<u128> = first
                .split(|c: char| !c.is_ascii_digit())
                .filter(|t| !t.is_empty())
                .filter_map(|t| t.parse().ok())
                .collect();
            if !first.starts_with("ModelCounts") || nums.len() != 2 * case.g.n {
                rep.violation("cli-counter-line-shape", format!("{:?}: first line {:?}", args, first), replay);
                return;
            }
            for (j, (o, label)) in names_in_order.iter().enumerate() {
                let (c, m) = (nums[2 * j], nums[2 * j + 1]);
                // (mid-size frameworks: satisfying assignments counted over the condition's own support; the ratio is what counts)
                let (sat, total) = match mid {
                    Some(_) => {
                        let sup = case.g.ac[*o].atom_list();
                        let mut sat = 0u128;
                        for bits in 0..(1usize << sup.len()) {
                            if case.g.ac[*o].eval(&|i| (bits >> sup.iter().position(|x| *x == i).unwrap()) & 1 == 1) {
                                sat += 1;
                            }
                        }
                        (sat, 1u128 << sup.len())
                    }
                    None => (case.sem.tt[*o].count_ones() as u128, 1u128 << case.g.n),
                };
                let unsat = total - sat;
                rep.count("cli_model_counts_checked", 1);
                if c + m == 0 || m * unsat != c * sat {
                    rep.violation(
                        "cli-counter-ratio",
                        format!("{:?}: statement {:?} counted (cmodels {}, models {}) but {} of {} assignments satisfy its condition", args, label, c, m, sat, total),
                        replay,
                    );
                    return;
                }
            }
            pos += 1;
        }
        if flags.contains(&"--grd") {
            let want = line(&grounded);
            if lines.get(pos) != Some(&want.as_str()) {
                rep.violation(
                    "cli-grounded-line",
                    format!("{:?}: first line {:?}, expected {:?}", args, lines.get(pos), want),
                    replay,
                );
                return;
            }
            pos += 1;
        }
        if flags.contains(&"--com") {
            let want: Vec<String> = complete.iter().map(&line).collect();
            let got: Vec<&str> = lines.iter().skip(pos).take(want.len()).copied().collect();
            let mut g2: Vec<&str> = got.clone();
            g2.sort_unstable();
            let mut w2: Vec<&str> = want.iter().map(|s| s.as_str()).collect();
            w2.sort_unstable();
            if g2 != w2 {
                rep.violation("cli-complete-section", format!("{:?}: complete section {:?}, expected (as a set) {:?}", args, got, want), replay);
                return;
            }
            if got.first() != Some(&line(&grounded).as_str()) {
                rep.violation("cli-complete-not-grounded-first", format!("{:?}: {:?}", args, got), replay);
                return;
            }
            pos += want.len();
        }
        // remaining lines: multiset of the wired sections (+ optionally correct lines of unwired requested ones)
        let mut remaining: BTreeMap<String, i64> = BTreeMap::new();
        for l in &lines[pos..] {
            *remaining.entry(l.to_string()).or_insert(0) += 1;
        }
        let mut required: BTreeMap<String, i64> = BTreeMap::new();
        let mut optional: BTreeMap<String, i64> = BTreeMap::new();
        let mut rew_done = false;
        for f in &flags {
            let set: &Vec<Vec<Val>> = match *f {
                "--grd" | "--com" => continue,
                "--twoval" => &twoval,
                "--stmrew" | "--stmrew2" => {
                    if rew_done {
                        continue;
                    }
                    rew_done = true;
                    &stable
                }
                _ => &stable,
            };
            let target = if wired(lib, f) { &mut required } else { &mut optional };
            for m in set {
                *target.entry(line(m)).or_insert(0) += 1;
            }
        }
        for (l, cnt) in &required {
            if remaining.get(l).copied().unwrap_or(0) < *cnt {
                rep.violation(
                    "cli-missing-model-line",
                    format!("{:?}: line {:?} expected {} times, printed {} times; stdout {:?}", args, l, cnt, remaining.get(l).copied().unwrap_or(0), out.stdout),
                    replay,
                );
                return;
            }
        }
        for (l, cnt) in &remaining {
            let allowed = required.get(l).copied().unwrap_or(0) + optional.get(l).copied().unwrap_or(0);
            if *cnt > allowed {
                rep.violation(
                    "cli-unexpected-line",
                    format!("{:?}: line {:?} printed {} times, at most {} justified; stdout {:?}", args, l, cnt, allowed, out.stdout),
                    replay,
                );
                return;
            }
        }
        rep.count("lines_checked", lines.len() as u64);
        if flags.len() >= 2 && lines.len() >= 2 {
            nontrivial = true;
        }
        if rep.samples.len() < 3 {
            rep.sample(json!({"args": args, "adf": case.text, "stdout": out.stdout}));
        }
    }
    if nontrivial {
        rep.nontrivial.insert(hash_str(&case.g.structure_key()));
    }
    // malformed inputs derived from this case
    if cfg.get("only_flags").is_none() {
        c15_malformed(rep, &case, cli, dir, &mut rng, case_seed);
    }
    let _ = std::fs::remove_file(&file);
}

fn c15_malformed(rep: &mut Report, case: &SmallCase, cli: &str, dir: &Path, rng: &mut Rng, case_seed: u64) {
    let text = &case.text;
    let l = |i: usize| spell(&case.g.labels[i], false);
    let a = rng.below(case.g.n);
    let mut bad: Vec<(&str, String)> = Vec::new();
    match rng.below(7) {
        0 => bad.push(("trailing-garbage", format!("{}x", text))),
        1 => {
            let mut t = text.clone();
            if let Some(p) = t.rfind(')') {
                t.remove(p);
            }
            bad.push(("delete-bracket", t));
        }
        2 => bad.push(("arity", format!("{}ac({},and({})).", text, l(a), l(a)))),
        3 => {
            // an undeclared statement, bare or at a position where its value cannot matter
            let b = l(rng.below(case.g.n));
            let body = match rng.below(8) {
                0 => "and(c(f),UNDECLAREDx9)".to_string(),
                1 => "or(c(v),UNDECLAREDx9)".to_string(),
                2 => format!("and(and({b},neg({b})),UNDECLAREDx9)", b = b),
                3 => format!("or(or({b},neg({b})),UNDECLAREDx9)", b = b),
                4 => "and(UNDECLAREDx9,c(f))".to_string(),
                5 => format!("imp(c(f),and({},UNDECLAREDx9))", b),
                6 => "xor(UNDECLAREDx9,UNDECLAREDx9)".to_string(),
                _ => "UNDECLAREDx9".to_string(),
            };
            bad.push(("undeclared-in-body", format!("{}ac({},{}).", text, l(a), body)));
        }
        4 => bad.push(("undeclared-head", format!("{}ac(UNDECLAREDx9,{}).", text, l(a)))),
        _ => {
            let t: String = text.chars().take(text.chars().count().saturating_sub(2).max(1)).collect();
            bad.push(("truncate", t));
        }
    }
    for (class, t) in bad {
        let syntactically_valid = oracle::grammar::recognise(&t).is_ok();
        if syntactically_valid && !class.starts_with("undeclared") {
            rep.count("mutants_still_valid_discarded", 1);
            continue;
        }
        let f = dir.join(format!("bad-{}.adf", case_seed));
        std::fs::write(&f, &t).expect("write");
        for lib in ["naive", "biodivine", "hybrid"] {
            let args: Vec<String> = vec!["--lib".into(), lib.into(), "--grd".into(), "--com".into(), "--stm".into(), f.to_string_lossy().to_string()];
            match run_cli(cli, &args, &[]) {
                Ok(out) => {
                    rep.count("malformed_invocations", 1);
                    rep.count(&format!("malformed.{}", class), 1);
                    let printed = out.stdout.lines().any(looks_like_interpretation);
                    if out.code == Some(0) || printed {
                        rep.violation(
                            "cli-answers-malformed-input",
                            format!("({}) exit {:?}, stdout {:?} for {:?}", class, out.code, out.stdout.chars().take(200).collect::<String>(), t),
                            json!({"property": "c15", "case_seed": case_seed.to_string(), "class": class, "text": t, "args": args}),
                        );
                        return;
                    }
                    rep.nontrivial.insert(hash_str(&t));
                }
                Err(e) => rep.inconclusive.push(e),
            }
        }
        let _ = std::fs::remove_file(&f);
    }
}

// ------------------------------------------------------------------------------------------
// C14 CLI leg: export / import / never overwrite

pub fn c14cli(cfg: &Cfg, rep: &mut Report) {
    let Some(cli) = cfg.get("cli").map(|s| s.to_string()) else {
        rep.inconclusive.push("no --cli given".into());
        return;
    };
    let dir = tmp_dir(cfg);
    for i in 0..cfg.cases {
        if rep.too_many() {
            break;
        }
        c14cli_case(cfg, rep, cfg.case_seed(i), &cli, &dir);
    }
    let _ = std::fs::remove_dir_all(&dir);
}

fn c14cli_case(cfg: &Cfg, rep: &mut Report, case_seed: u64, cli: &str, dir: &Path) {
    let nm = cfg.get_usize("nmax", 5);
    let case = small_case(case_seed, nm);
    if !printable(&case) {
        return;
    }
    let mut rng = Rng::new(case_seed ^ 0xC14);
    rep.evaluations += 1;
    let file = dir.join(format!("c14-{}.adf", case_seed));
    std::fs::write(&file, &case.text).expect("write");
    // the export goes into a directory that already holds other files with related names (earlier exports,
    // backups, temporary files of other jobs): none of them may be touched
    let exdir = dir.join(format!("c14-{}-exports", case_seed));
    let _ = std::fs::remove_dir_all(&exdir);
    std::fs::create_dir_all(&exdir).expect("create export dir");
    let export = exdir.join("run.json");
    let decoys: Vec<(PathBuf, Vec<u8>)> = ["run.tmp", "run.json.tmp", "run.json~", "run.json.bak", ".run.json.swp", "run.json.part", "run.json.new", "run", "tmp", "run.JSON", "run.json.1"]
        .iter()
        .map(|n| (exdir.join(n), format!("DECOY {} of another job\n", n).into_bytes()))
        .collect();
    for (p, c) in &decoys {
        std::fs::write(p, c).expect("write decoy");
    }
    let sortflag = *rng.pick(&["", "--lx", "--an"]);
    let sem: Vec<String> = ["--grd", "--com", "--stm", "--stmng"].iter().map(|s| s.to_string()).collect();
    let mut direct: Vec<String> = vec!["--lib".into(), "naive".into()];
    if !sortflag.is_empty() {
        direct.push(sortflag.into());
    }
    let replay = json!({"property": "c14", "leg": "cli", "case_seed": case_seed.to_string(), "adf": case.text, "sort": sortflag});
    // 1. direct run with export
    let mut a1 = direct.clone();
    a1.extend(sem.clone());
    a1.push("--export".into());
    a1.push(export.to_string_lossy().to_string());
    a1.push(file.to_string_lossy().to_string());
    let Ok(o1) = run_cli(cli, &a1, &[]) else {
        rep.inconclusive.push("cannot run cli".into());
        return;
    };
    if o1.code != Some(0) || !export.exists() {
        rep.violation("cli-export-failed", format!("exit {:?}, export file exists: {}; stderr {}", o1.code, export.exists(), o1.stderr.chars().take(300).collect::<String>()), replay);
        return;
    }
    for (p, c) in &decoys {
        if std::fs::read(p).ok().as_ref() != Some(c) {
            rep.violation(
                "cli-export-touches-other-file",
                format!("--export {} modified or removed the unrelated existing file {}", export.display(), p.file_name().unwrap().to_string_lossy()),
                replay,
            );
            return;
        }
    }
    rep.count("decoy_files_checked", decoys.len() as u64);
    // oracle check of the direct output (grounded first line)
    let rec = oracle::grammar::recognise(&case.text).expect("valid");
    let _ = rec;
    // 2. import run
    let mut a2: Vec<String> = vec!["--lib".into(), "naive".into(), "--import".into()];
    a2.extend(sem.clone());
    a2.push(export.to_string_lossy().to_string());
    let Ok(o2) = run_cli(cli, &a2, &[]) else {
        rep.inconclusive.push("cannot run cli".into());
        return;
    };
    rep.count("export_import_pairs", 1);
    if o2.code != Some(0) {
        rep.violation(
            "cli-import-fails",
            format!("--import exits with {:?}; stderr {}", o2.code, o2.stderr.chars().take(300).collect::<String>()),
            replay,
        );
        return;
    }
    if o2.stdout != o1.stdout {
        rep.violation("cli-import-output-differs", format!("direct {:?} vs imported {:?}", o1.stdout, o2.stdout), replay);
        return;
    }
    if o1.stdout.lines().count() >= 3 {
        rep.nontrivial.insert(hash_str(&case.g.structure_key()));
    }
    // 3. never overwrite an existing export file
    let sentinel = dir.join(format!("c14-{}-existing.json", case_seed));
    let link = dir.join(format!("c14-{}-link.json", case_seed));
    let kind = rng.below(3);
    let content: &[u8] = if kind == 1 { b"" } else { b"SENTINEL do not overwrite\n" };
    std::fs::write(&sentinel, content).expect("write sentinel");
    let target = if kind == 2 {
        let _ = std::fs::remove_file(&link);
        std::os::unix::fs::symlink(&sentinel, &link).expect("symlink");
        link.clone()
    } else {
        sentinel.clone()
    };
    let mtime = std::fs::metadata(&sentinel).and_then(|m| m.modified()).ok();
    let mut a3 = direct.clone();
    a3.extend(sem.clone());
    a3.push("--export".into());
    a3.push(target.to_string_lossy().to_string());
    a3.push(file.to_string_lossy().to_string());
    let Ok(o3) = run_cli(cli, &a3, &[]) else {
        rep.inconclusive.push("cannot run cli".into());
        return;
    };
    rep.count(["existing_regular_file", "existing_empty_file", "existing_symlink"][kind], 1);
    let after = std::fs::read(&sentinel).unwrap_or_default();
    let mtime2 = std::fs::metadata(&sentinel).and_then(|m| m.modified()).ok();
    if after != content || mtime != mtime2 {
        rep.violation("cli-export-overwrites", format!("existing export target (kind {}) was modified", kind), replay);
        return;
    }
    if o3.code != Some(0) || o3.stdout != o1.stdout {
        rep.violation("cli-export-existing-changes-answers", format!("exit {:?}, stdout {:?} vs {:?}", o3.code, o3.stdout, o1.stdout), replay);
        return;
    }
    // 4. the export target appears while the tool is still reading its input (a second job with the same
    //    target): it must not be overwritten either. The input travels through a FIFO, so the order of events
    //    is fixed without relying on timing: the target exists before the tool can have read a single byte.
    if rng.chance(1, 2) {
        let fifo = dir.join(format!("c14-{}.fifo", case_seed));
        let late = dir.join(format!("c14-{}-late.json", case_seed));
        let _ = std::fs::remove_file(&fifo);
        let _ = std::fs::remove_file(&late);
        let made = Command::new("mkfifo").arg(&fifo).status().map(|s| s.success()).unwrap_or(false);
        if made {
            let mut a4 = direct.clone();
            a4.push("--grd".into());
            a4.push("--export".into());
            a4.push(late.to_string_lossy().to_string());
            a4.push(fifo.to_string_lossy().to_string());
            let child = Command::new(cli)
                .args(&a4)
                .env_remove("RUST_LOG")
                .stdout(std::process::Stdio::piped())
                .stderr(std::process::Stdio::null())
                .spawn();
            if let Ok(child) = child {
                // give the process time to start and to do whatever it does before reading its input
                std::thread::sleep(std::time::Duration::from_millis(120));
                std::fs::write(&late, b"SENTINEL created while the tool was reading\n").expect("write late target");
                // read+write open never blocks on a FIFO; dropping the handle delivers end-of-file
                if let Ok(mut w) = std::fs::OpenOptions::new().read(true).write(true).open(&fifo) {
                    use std::io::Write;
                    let _ = w.write_all(case.text.as_bytes());
                }
                let out = child.wait_with_output();
                rep.count("export_target_created_during_run", 1);
                let after = std::fs::read(&late).unwrap_or_default();
                if after != b"SENTINEL created while the tool was reading\n" {
                    rep.violation(
                        "cli-export-overwrites-late-target",
                        "an export target that was created while the tool was still reading its input has been overwritten".into(),
                        replay,
                    );
                    return;
                }
                if let Ok(o) = out {
                    if o.status.code() != Some(0) {
                        rep.violation("cli-export-late-target-fails", format!("exit {:?}", o.status.code()), replay);
                        return;
                    }
                }
            }
            let _ = std::fs::remove_file(&fifo);
            let _ = std::fs::remove_file(&late);
        }
    }
    for f in [&file, &export, &sentinel, &link] {
        let _ = std::fs::remove_file(f);
    }
    let _ = std::fs::remove_dir_all(&exdir);
    let _ = show_vals;
}

/// big inputs at the command line: 30-60 statements with random conditions (grounded interpretation from the
/// support-bounded oracle) or 64-90 statements with a condition chained over nearly all others (strong Kleene
/// oracle); `--grd` in all three library modes and under every sort flag must print exactly the grounded line
pub fn c15_big(_cfg: &Cfg, rep: &mut Report, case_seed: u64, cli: &str, dir: &Path, wrapper: &[String]) {
    let mut rng = Rng::new(case_seed ^ 0xB15);
    let tall = rng.bool();
    let (g, text, want): (oracle::gen::GenAdf, String, Vec<Val>) = if tall {
        let g = oracle::gen::gen_tall(&mut rng);
        let t = g.render(&mut rng, true).text;
        let w = oracle::gen::tall_grounded(&g);
        (g, t, w)
    } else {
        let (g, t, sem) = crate::sem::large_case(case_seed);
        let (w, _) = sem.grounded_rounds();
        (g, t, w)
    };
    if g.labels.iter().any(|l| l.contains('\n') || l.contains('\r')) || !g.bio_safe() {
        return;
    }
    rep.evaluations += 1;
    rep.count(if tall { "big_cli_cases_tall" } else { "big_cli_cases_random" }, 1);
    rep.max("max_statements_in_a_cli_run", g.n as u64);
    let file = dir.join(format!("big-{}.adf", case_seed));
    std::fs::write(&file, &text).expect("write case file");
    let rec = oracle::grammar::recognise(&text).expect("generated text is valid");
    let decl: Vec<String> = rec.statements.clone();
    for lib in ["naive", "biodivine", "hybrid"] {
        let sortflag = *rng.pick(&["", "--lx", "--an"]);
        let order: Vec<String> = match sortflag {
            "--lx" => {
                let mut s = decl.clone();
                s.sort_by(|a, b| a.as_bytes().cmp(b.as_bytes()));
                s
            }
            "--an" => match build(&text, Sort::Alnum, false) {
                Ok(o) => o.names,
                Err(e) => {
                    // (with ad-hoc model counting a tall framework cannot be built in-process: D14; the order is
                    // only needed to construct the expected line, skip this flag then)
                    let _ = e;
                    continue;
                }
            },
            _ => decl.clone(),
        };
        let pos: std::collections::HashMap<&String, usize> = g.labels.iter().enumerate().map(|(i, l)| (l, i)).collect();
        let names_in_order: Vec<(usize, &String)> = order.iter().map(|l| (*pos.get(l).expect("label known"), l)).collect();
        let wantline = line_of(&want, &names_in_order);
        let mut args: Vec<String> = vec!["--lib".into(), lib.into(), "--grd".into()];
        if !sortflag.is_empty() {
            args.push(sortflag.into());
        }
        args.push(file.to_string_lossy().to_string());
        let replay = json!({"property": "c15", "case_seed": case_seed.to_string(), "big_cli_case": true, "tall": tall, "statements": g.n, "args": args,
            "adf": if text.len() < 6000 { text.clone() } else { format!("{}...", text.chars().take(6000).collect::<String>()) }});
        let out = match run_cli(cli, &args, wrapper) {
            Ok(o) => o,
            Err(e) => {
                rep.inconclusive.push(e);
                return;
            }
        };
        rep.count("invocations", 1);
        if out.hung {
            rep.violation("cli-hangs", format!("{:?}: no progress for 15 s (killed)", args), replay);
            return;
        }
        if out.code != Some(0) {
            rep.violation("cli-valid-input-fails", format!("exit status {:?} for {:?} ({} statements); stderr: {}", out.code, args, g.n, out.stderr.chars().take(300).collect::<String>()), replay);
            return;
        }
        if out.stdout != format!("{}\n", wantline) {
            rep.violation("cli-grounded-line", format!("{:?}: printed {:?}, expected {:?}", args, out.stdout.chars().take(400).collect::<String>(), wantline.chars().take(400).collect::<String>()), replay);
            return;
        }
        rep.count("lines_checked", 1);
    }
    rep.nontrivial.insert(hash_str(&format!("bigcli{}", case_seed)));
    let _ = std::fs::remove_file(&file);
}
