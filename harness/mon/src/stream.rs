//! C19: streaming mirror. The hook event `NodeCreated` is the yield point at which the harness
//! polls relay and receiver; a sequential model predicts table length and answer of every poll.

use crate::bddmon::{Op, Store};
use crate::common::*;
use adf_bdd::datatypes::{BddNode, Term};
use adf_bdd::obdd::Bdd;
use adf_bdd::verif::Event;
use oracle::Rng;
use serde_json::{json, Value};
use std::cell::RefCell;
use std::rc::Rc;

#[derive(Clone, Copy, Debug, PartialEq, Eq)]
pub enum HKind {
    Zero,
    One,
    Existing,
    Next,
    Beyond,
    Max,
}

pub const HKINDS: [HKind; 6] = [HKind::Zero, HKind::One, HKind::Existing, HKind::Next, HKind::Beyond, HKind::Max];

#[derive(Clone, Copy, Debug, PartialEq, Eq)]
pub enum Target {
    Relay,
    Last,
}

#[derive(Clone, Debug)]
pub struct Poll {
    /// poll happens when exactly `cut` nodes have been created by the producer
    pub cut: usize,
    pub target: Target,
    pub kind: HKind,
    pub salt: usize,
}

#[derive(Clone, Debug)]
pub struct PollRecord {
    pub created: usize,
    pub target: Target,
    pub h: usize,
    pub found: bool,
    pub len_before: usize,
    pub table_after: Vec<BddNode>,
    pub upstream_len: usize,
}

fn producer_program(rng: &mut Rng, nvars: usize, nops: usize) -> Vec<OpSpec> {
    (0..nops)
        .map(|_| OpSpec {
            kind: rng.below(9),
            a: rng.next_u64() as usize,
            b: rng.next_u64() as usize,
            v: rng.below(nvars),
            val: rng.bool(),
        })
        .collect()
}

#[derive(Clone, Debug)]
pub struct OpSpec {
    kind: usize,
    a: usize,
    b: usize,
    v: usize,
    val: bool,
}

fn spec_to_op(s: &OpSpec, issued: usize) -> Op {
    let a = s.a % issued;
    let b = s.b % issued;
    match s.kind {
        0 | 1 => Op::Var(s.v),
        2 => Op::Not(a),
        3 => Op::And(a, b),
        4 => Op::Or(a, b),
        5 => Op::Xor(a, b),
        6 => Op::Iff(a, b),
        7 => Op::Imp(a, b),
        _ => Op::Restrict(a, s.v, s.val),
    }
}

pub struct RunResult {
    pub producer_nodes: Vec<BddNode>,
    pub relay_nodes: Vec<BddNode>,
    pub last_nodes: Vec<BddNode>,
    pub records: Vec<PollRecord>,
    pub error: Option<String>,
}

fn choose_h(kind: HKind, len: usize, salt: usize) -> usize {
    match kind {
        HKind::Zero => 0,
        HKind::One => 1,
        HKind::Existing => salt % len,
        HKind::Next => len,
        HKind::Beyond => len + 1 + salt % 5,
        HKind::Max => usize::MAX,
    }
}

/// run the producer program with the given poll schedule; polls are executed inside the hook sink
pub fn run_schedule(nvars: usize, program: &[OpSpec], schedule: &[Poll], with_chain: bool) -> Result<RunResult, Caught> {
    run_schedule_drop(nvars, program, schedule, with_chain, None)
}

/// like `run_schedule`; `drop_last_at`: the last store of the chain is dropped when that many nodes exist
/// (its receiver disappears, the relay's forwarding fails from then on and must not disturb the relay)
pub fn run_schedule_drop(
    nvars: usize,
    program: &[OpSpec],
    schedule: &[Poll],
    with_chain: bool,
    drop_last_at: Option<usize>,
) -> Result<RunResult, Caught> {
    let (s1, r1) = crossbeam_channel::unbounded::<BddNode>();
    let (s2, r2) = crossbeam_channel::unbounded::<BddNode>();
    let relay = Rc::new(RefCell::new(if with_chain {
        Bdd::with_sender_receiver(s2, r1)
    } else {
        drop(s2);
        Bdd::with_receiver(r1)
    }));
    let last: Rc<RefCell<Option<Bdd>>> = Rc::new(RefCell::new(Some(Bdd::with_receiver(r2))));
    let records: Rc<RefCell<Vec<PollRecord>>> = Rc::new(RefCell::new(Vec::new()));
    let created = Rc::new(RefCell::new(0usize));
    let sched: Vec<Poll> = schedule.to_vec();

    let do_polls = {
        let relay = relay.clone();
        let last = last.clone();
        let records = records.clone();
        let sched = sched.clone();
        move |cut: usize| {
            if drop_last_at == Some(cut) {
                // the downstream store goes away
                last.borrow_mut().take();
            }
            for p in sched.iter().filter(|p| p.cut == cut) {
                let upstream_len = match p.target {
                    Target::Relay => usize::MAX,
                    Target::Last => relay.borrow().nodes.len(),
                };
                let mut relay_g;
                let mut last_g;
                let t: &mut Bdd = match p.target {
                    Target::Relay => {
                        relay_g = relay.borrow_mut();
                        &mut relay_g
                    }
                    Target::Last => {
                        last_g = last.borrow_mut();
                        match last_g.as_mut() {
                            Some(b) => b,
                            None => continue,
                        }
                    }
                };
                let len_before = t.nodes.len();
                let h = choose_h(p.kind, len_before, p.salt);
                let found = t.recv(Term(h));
                records.borrow_mut().push(PollRecord {
                    created: cut,
                    target: p.target,
                    h,
                    found,
                    len_before,
                    table_after: t.nodes.clone(),
                    upstream_len,
                });
            }
        }
    };

    let r = guarded(SMALL_BUDGET, || {
        let mut store = Store::new(nvars);
        store.bdd = Bdd::with_sender(s1);
        do_polls(0);
        let created2 = created.clone();
        let do_polls2 = do_polls.clone();
        let prev = adf_bdd::verif::set_sink(Some(Box::new(move |e: &Event| {
            if let Event::NodeCreated { .. } = e {
                let mut c = created2.borrow_mut();
                *c += 1;
                let cut = *c;
                drop(c);
                do_polls2(cut);
            }
        })));
        let mut error = None;
        for spec in program {
            let op = spec_to_op(spec, store.issued.len());
            if let Err(e) = store.apply(&op) {
                error = Some(e);
                break;
            }
        }
        adf_bdd::verif::set_sink(prev);
        (store.bdd.nodes.clone(), error)
        // the producer store (and with it the sender) is dropped here
    });
    // make sure the sink is gone even if the library panicked
    adf_bdd::verif::set_sink(None);
    let (producer_nodes, error) = r?;
    // final drain: producer is done, sender dropped
    let fin = guarded(SMALL_BUDGET, || {
        let total = *created.borrow();
        let mut rl = relay.borrow_mut();
        let len_before = rl.nodes.len();
        let found = rl.recv(Term(usize::MAX));
        records.borrow_mut().push(PollRecord {
            created: total,
            target: Target::Relay,
            h: usize::MAX,
            found,
            len_before,
            table_after: rl.nodes.clone(),
            upstream_len: usize::MAX,
        });
        let up = rl.nodes.len();
        drop(rl);
        if let (true, Some(l)) = (with_chain, last.borrow_mut().as_mut()) {
            let len_before = l.nodes.len();
            let found = l.recv(Term(usize::MAX));
            records.borrow_mut().push(PollRecord {
                created: total,
                target: Target::Last,
                h: usize::MAX,
                found,
                len_before,
                table_after: l.nodes.clone(),
                upstream_len: up,
            });
        }
    });
    fin?;
    let res = RunResult {
        producer_nodes,
        relay_nodes: relay.borrow().nodes.clone(),
        last_nodes: last.borrow().as_ref().map(|b| b.nodes.clone()).unwrap_or_default(),
        records: records.borrow().clone(),
        error,
    };
    Ok(res)
}

/// judge a run against the sequential model
pub fn judge(res: &RunResult, with_chain: bool) -> Result<(), String> {
    if let Some(e) = &res.error {
        return Err(format!("producer operation failed its own check: {}", e));
    }
    let p = &res.producer_nodes;
    for (i, r) in res.records.iter().enumerate() {
        // what the target could draw from
        let available = match r.target {
            Target::Relay => 2 + r.created,
            Target::Last => r.upstream_len,
        };
        if r.target == Target::Last && !with_chain {
            // no upstream at all
        }
        let want_len = r.len_before.max(available.min(r.h.saturating_add(1)));
        let got_len = r.table_after.len();
        if got_len != want_len {
            return Err(format!(
                "poll #{} ({:?}, h={}, {} nodes created, {} available): table has {} entries afterwards, model says {}",
                i, r.target, r.h, r.created, available, got_len, want_len
            ));
        }
        if got_len > p.len() || r.table_after[..] != p[..got_len] {
            return Err(format!(
                "poll #{} ({:?}, h={}): receiver table is not the producer's first {} entries",
                i, r.target, r.h, got_len
            ));
        }
        let want_found = r.h < got_len;
        if r.found != want_found {
            return Err(format!(
                "poll #{} ({:?}, h={}): answered {} but the table has {} entries afterwards",
                i, r.target, r.h, r.found, got_len
            ));
        }
    }
    if res.relay_nodes != *p {
        return Err(format!("after the final drain the relay holds {} entries, the producer {}", res.relay_nodes.len(), p.len()));
    }
    if with_chain && !res.last_nodes.is_empty() && res.last_nodes != *p {
        return Err(format!("after the final drain the last receiver holds {} entries, the producer {}", res.last_nodes.len(), p.len()));
    }
    Ok(())
}

fn sched_json(s: &[Poll]) -> Value {
    json!(s.iter().map(|p| format!("{}:{:?}:{:?}:{}", p.cut, p.target, p.kind, p.salt)).collect::<Vec<_>>())
}

pub fn c19(cfg: &Cfg, rep: &mut Report) {
    for i in 0..cfg.cases {
        if rep.too_many() {
            break;
        }
        let case_seed = cfg.case_seed(i);
        c19_case(cfg, rep, case_seed);
    }
    // long streams (tens of thousands of nodes through a relay chain)
    let long = cfg.get_usize("long_streams", if cfg.thorough { 2 } else if cfg.shard < 4 && !cfg.flag("trace_log") { 1 } else { 0 });
    for i in 0..long {
        if rep.too_many() {
            break;
        }
        c19_long(cfg, rep, cfg.case_seed(700_000 + i));
    }
    // real threads
    let runs = cfg.get_usize("threaded", if cfg.thorough { 400 } else { 60 });
    for i in 0..runs {
        // one stalled producer per shard is witness enough (each costs 20 s of waiting)
        if rep.too_many() || rep.violations.iter().any(|v| v.signature == "stream-threaded-producer-stalled") {
            break;
        }
        c19_threaded(cfg, rep, cfg.case_seed(500_000 + i));
    }
}

pub fn c19_case(cfg: &Cfg, rep: &mut Report, case_seed: u64) {
    let mut rng = Rng::new(case_seed);
    let short = rng.chance(1, 2);
    let nvars = if short { rng.range(2, 3) } else { rng.range(3, 6) };
    let nops = if short { rng.range(2, 7) } else { rng.range(8, 60) };
    let program = producer_program(&mut rng, nvars, nops);
    let with_chain = true;
    // dry run to learn how many nodes the program creates
    let dry = match run_schedule(nvars, &program, &[], with_chain) {
        Ok(r) => r,
        Err(c) => {
            rep.violation(&format!("stream:{}", c.kind()), c.describe(), json!({"property": "c19", "case_seed": case_seed.to_string()}));
            return;
        }
    };
    let created = dry.producer_nodes.len() - 2;
    rep.max("max_nodes_created", created as u64);
    let mut schedules: Vec<Vec<Poll>> = vec![vec![]];
    let exhaustive = created <= cfg.get_usize("exhaustive_nodes", 12);
    if exhaustive {
        // every single poll: cut x target x kind of handle
        for cut in 0..=created {
            for target in [Target::Relay, Target::Last] {
                for kind in HKINDS {
                    let mut s = vec![Poll { cut, target, kind, salt: rng.below(1000) }];
                    if target == Target::Last {
                        // let the relay know something first, otherwise the last receiver never sees anything
                        s.insert(0, Poll { cut: rng.below(cut + 1), target: Target::Relay, kind: *rng.pick(&[HKind::Max, HKind::Next, HKind::Beyond]), salt: rng.below(1000) });
                    }
                    schedules.push(s);
                }
            }
        }
        rep.count("programs_with_all_single_cuts", 1);
    }
    // random multi-poll schedules
    for _ in 0..(if exhaustive { 10 } else { 30 }) {
        let k = rng.range(1, 3 * created.max(1) + 2);
        let mut s: Vec<Poll> = (0..k)
            .map(|_| Poll {
                cut: rng.below(created + 1),
                target: if rng.chance(3, 5) { Target::Relay } else { Target::Last },
                kind: *rng.pick(&HKINDS),
                salt: rng.below(1000),
            })
            .collect();
        s.sort_by_key(|p| p.cut);
        schedules.push(s);
    }
    let mut nontrivial = false;
    for (si, s) in schedules.iter().enumerate() {
        rep.evaluations += 1;
        // in a third of the runs the last store of the chain disappears at some cut
        let drop_at = if si % 3 == 2 { Some(rng.below(created + 1)) } else { None };
        if drop_at.is_some() {
            rep.count("runs_with_downstream_store_dropped", 1);
        }
        let replay = json!({"property": "c19", "case_seed": case_seed.to_string(), "nvars": nvars, "ops": nops, "schedule": sched_json(s), "drop_last_at": drop_at});
        match run_schedule_drop(nvars, &program, s, with_chain, drop_at) {
            Ok(res) => {
                rep.count("polls_checked", res.records.len() as u64);
                let cutvec: String = res.records.iter().map(|r| format!("{}{}{};", r.created, if r.target == Target::Relay { 'r' } else { 'l' }, r.table_after.len())).collect();
                rep.distinct("cut_vectors", hash_str(&cutvec));
                for r in &res.records {
                    if r.table_after.len() > r.len_before && r.table_after.len() < res.producer_nodes.len() {
                        rep.count("polls_observing_a_proper_prefix", 1);
                        nontrivial = true;
                    }
                    rep.count(if r.found { "polls_found" } else { "polls_not_found" }, 1);
                }
                if let Err(e) = judge(&res, with_chain) {
                    rep.violation("stream-mirror", e, replay);
                    return;
                }
            }
            Err(c) => {
                rep.violation(&format!("stream:{}", c.kind()), c.describe(), replay);
                return;
            }
        }
    }
    if nontrivial {
        rep.nontrivial.insert(hash_str(&format!("{:?}", program)));
    }
    if rep.samples.len() < 2 {
        rep.sample(json!({"nvars": nvars, "program_ops": nops, "nodes_created": created, "schedules": schedules.len(), "example_schedule": sched_json(schedules.last().unwrap())}));
    }
}

/// producer thread and two polling threads; poll logs are judged afterwards
pub fn c19_threaded(_cfg: &Cfg, rep: &mut Report, case_seed: u64) {
    let mut rng = Rng::new(case_seed);
    let nvars = rng.range(2, 5);
    let nops = rng.range(5, 60);
    let program = producer_program(&mut rng, nvars, nops);
    // the channels handed in may be bounded: a full channel must stall the producer, never drop a node
    let cap1 = *rng.pick(&[None, None, Some(0usize), Some(1), Some(2), Some(3), Some(8)]);
    let (s1, r1) = match cap1 {
        None => crossbeam_channel::unbounded::<BddNode>(),
        Some(c) => crossbeam_channel::bounded::<BddNode>(c),
    };
    let (s2, r2) = crossbeam_channel::unbounded::<BddNode>();
    rep.count(&format!("threaded_capacity_{}", cap1.map(|c| c.to_string()).unwrap_or_else(|| "unbounded".into())), 1);
    let seed_a = rng.next_u64();
    let seed_b = rng.next_u64();
    rep.evaluations += 1;
    let replay = json!({"property": "c19", "case_seed": case_seed.to_string(), "threaded": true, "capacity": cap1});
    let done = std::sync::Arc::new(std::sync::atomic::AtomicBool::new(false));

    let prog2 = program.clone();
    let progress = std::sync::Arc::new(std::sync::atomic::AtomicUsize::new(0));
    let progress2 = progress.clone();
    let producer = std::thread::spawn(move || {
        guarded(SMALL_BUDGET, || {
            let mut store = Store::new(nvars);
            store.bdd = Bdd::with_sender(s1);
            let mut error = None;
            let mut y = Rng::new(seed_a);
            for spec in &prog2 {
                let op = spec_to_op(spec, store.issued.len());
                progress2.fetch_add(1, std::sync::atomic::Ordering::SeqCst);
                if let Err(e) = store.apply(&op) {
                    error = Some(e);
                    break;
                }
                if y.chance(1, 3) {
                    std::thread::yield_now();
                }
            }
            (store.bdd.nodes.clone(), error)
        })
    });
    type Log = Vec<(usize, bool, usize, Vec<BddNode>)>;
    let poller = |mut bdd: Bdd, seed: u64, done: std::sync::Arc<std::sync::atomic::AtomicBool>| {
        std::thread::spawn(move || {
            guarded(SMALL_BUDGET, || {
                let mut log: Log = Vec::new();
                let mut r = Rng::new(seed);
                let mut polls = 0u64;
                loop {
                    let finished = done.load(std::sync::atomic::Ordering::SeqCst);
                    let len = bdd.nodes.len();
                    let kind = *r.pick(&HKINDS);
                    let h = choose_h(kind, len, r.below(1000));
                    let found = bdd.recv(Term(h));
                    polls += 1;
                    if log.len() < 20_000 {
                        log.push((h, found, len, bdd.nodes.clone()));
                    }
                    if finished && polls > 3 {
                        break;
                    }
                    if r.chance(1, 2) {
                        std::thread::yield_now();
                    }
                }
                (log, bdd)
            })
        })
    };
    let done_last = std::sync::Arc::new(std::sync::atomic::AtomicBool::new(false));
    let relay_t = poller(Bdd::with_sender_receiver(s2, r1), seed_b, done.clone());
    let last_t = poller(Bdd::with_receiver(r2), seed_b ^ 0x55, done_last.clone());
    // bounded progress: the producer reports every operation it starts. It is stalled if it is not done,
    // has not started a new operation for 20 s (generous: one operation takes microseconds) although the
    // relay polls continuously. Only a receiver side that never takes anything from the channel does that.
    let mut stalled = false;
    let mut last_progress = (progress.load(std::sync::atomic::Ordering::SeqCst), std::time::Instant::now());
    while !producer.is_finished() {
        let p = progress.load(std::sync::atomic::Ordering::SeqCst);
        if p != last_progress.0 {
            last_progress = (p, std::time::Instant::now());
        } else if last_progress.1.elapsed() > std::time::Duration::from_secs(20) {
            stalled = true;
            break;
        }
        std::thread::sleep(std::time::Duration::from_micros(200));
    }
    if stalled {
        done.store(true, std::sync::atomic::Ordering::SeqCst);
        done_last.store(true, std::sync::atomic::Ordering::SeqCst);
        // joining the pollers drops their stores and with them the receivers, which releases the producer
        let _ = relay_t.join();
        let _ = last_t.join();
        let _ = producer.join();
        rep.violation(
            "stream-threaded-producer-stalled",
            format!("the producer made no progress for 20 s at operation {} while the relay kept polling (channel capacity {:?})", last_progress.0, cap1),
            replay,
        );
        return;
    }
    let prod = producer.join();
    done.store(true, std::sync::atomic::Ordering::SeqCst);
    let relay = relay_t.join();
    done_last.store(true, std::sync::atomic::Ordering::SeqCst);
    let last = last_t.join();
    let (Ok(prod), Ok(relay), Ok(last)) = (prod, relay, last) else {
        rep.inconclusive.push("a worker thread could not be joined".into());
        return;
    };
    let (pnodes, perr) = match prod {
        Ok(x) => x,
        Err(c) => {
            rep.violation(&format!("stream-threaded:{}", c.kind()), c.describe(), replay);
            return;
        }
    };
    if let Some(e) = perr {
        rep.violation("stream-threaded-producer", e, replay);
        return;
    }
    let mut finals: Vec<Bdd> = Vec::new();
    for (name, r) in [("relay", relay), ("last", last)] {
        match r {
            Err(c) => {
                rep.violation(&format!("stream-threaded:{}", c.kind()), format!("{} {}", name, c.describe()), replay);
                return;
            }
            Ok((log, bdd)) => {
                rep.count("threaded_polls", log.len() as u64);
                let mut prev_len = 2;
                for (h, found, len_before, table) in &log {
                    rep.distinct("threaded_table_lengths", table.len() as u64);
                    if table.len() < prev_len || *len_before != prev_len {
                        rep.violation("stream-threaded-shrunk", format!("{}: table length went from {} to {}", name, prev_len, table.len()), replay);
                        return;
                    }
                    prev_len = table.len();
                    if table.len() > pnodes.len() || table[..] != pnodes[..table.len()] {
                        rep.violation("stream-threaded-not-a-prefix", format!("{}: table with {} entries is not a prefix of the producer's table", name, table.len()), replay);
                        return;
                    }
                    if *found != (*h < table.len()) {
                        rep.violation("stream-threaded-answer", format!("{}: recv({}) answered {} with {} entries present", name, h, found, table.len()), replay);
                        return;
                    }
                    // a poll never reads past the requested handle
                    if table.len() > *len_before && table.len() > h.saturating_add(1) {
                        rep.violation("stream-threaded-overread", format!("{}: recv({}) grew the table from {} to {}", name, h, len_before, table.len()), replay);
                        return;
                    }
                }
                finals.push(bdd);
            }
        }
    }
    // final drain in order relay -> last
    let mut last_b = finals.pop().unwrap();
    let mut relay_b = finals.pop().unwrap();
    let _ = guarded(SMALL_BUDGET, || {
        relay_b.recv(Term(usize::MAX));
        last_b.recv(Term(usize::MAX));
    });
    if relay_b.nodes != pnodes || last_b.nodes != pnodes {
        rep.violation(
            "stream-threaded-final",
            format!("after the final drain: producer {}, relay {}, last {} entries", pnodes.len(), relay_b.nodes.len(), last_b.nodes.len()),
            replay,
        );
        return;
    }
    rep.count("threaded_runs", 1);
}

/// A long stream: a producer with 12 to 16 variables keeps computing until its table holds tens of thousands of
/// nodes; relay and last store of a chain are polled at random moments (between producer operations) with
/// existing, future and "read everything" handles. Sequential model as in `judge`: a poll for handle h grows the
/// polled table to min(available, h+1) entries (never shrinks it), every table is a prefix of the producer's,
/// the answer says whether h lies inside the table afterwards, and after a final drain all three are identical.
pub fn c19_long(cfg: &Cfg, rep: &mut Report, case_seed: u64) {
    let mut rng = Rng::new(case_seed ^ 0x19);
    let nvars = rng.range(12, 16);
    let max_nodes = cfg.get_usize("long_stream_nodes", if cfg.thorough { 500_000 } else { 150_000 });
    // channel flavours: unbounded, or bounded with more room than the whole stream needs between two polls
    let roomy = rng.chance(1, 3);
    let (s1, r1) = if roomy { crossbeam_channel::bounded::<BddNode>(max_nodes * 2 + 1000) } else { crossbeam_channel::unbounded::<BddNode>() };
    let (s2, r2) = if roomy { crossbeam_channel::bounded::<BddNode>(max_nodes * 2 + 1000) } else { crossbeam_channel::unbounded::<BddNode>() };
    rep.evaluations += 1;
    rep.count("long_streams", 1);
    let replay = |polls: usize, what: &str| json!({"property": "c19", "case_seed": case_seed.to_string(), "long_stream": true, "nvars": nvars, "polls_so_far": polls, "at": what});
    let r = guarded(SMALL_BUDGET * 50, || -> Result<(usize, usize, usize), String> {
        let mut prod = Bdd::with_sender(s1);
        let mut relay = Bdd::with_sender_receiver(s2, r1);
        let mut last = Bdd::with_receiver(r2);
        let mut pool: Vec<Term> = (0..nvars).map(|v| prod.variable(adf_bdd::datatypes::Var(v))).collect();
        let mut polls = 0usize;
        let mut ops = 0usize;
        let mut relay_seen = 2usize; // entries the relay has taken (and therefore forwarded)
        let poll = |who: &mut Bdd, name: &str, available: usize, h: usize, prod_nodes: &[BddNode]| -> Result<usize, String> {
            let before = who.nodes.len();
            let found = who.recv(Term(h));
            let after = who.nodes.len();
            let want = before.max(available.min(h.saturating_add(1)));
            if after != want {
                return Err(format!("{} polled for handle {} with {} entries, {} available: holds {} entries afterwards, model says {}", name, h, before, available, after, want));
            }
            if after > prod_nodes.len() || who.nodes[before.min(after)..after] != prod_nodes[before.min(after)..after] {
                return Err(format!("{}: entries {}..{} differ from the producer's", name, before, after));
            }
            if found != (h < after) {
                return Err(format!("{} polled for handle {}: answered {} but holds {} entries afterwards", name, h, found, after));
            }
            Ok(after)
        };
        while prod.nodes.len() < max_nodes && ops < 200_000 {
            let a = if rng.chance(1, 2) { pool[pool.len() - 1 - rng.below(pool.len().min(16))] } else { pool[rng.below(pool.len())] };
            let b = pool[rng.below(pool.len())];
            let t = match rng.below(7) {
                0 | 1 => prod.and(a, b),
                2 => prod.or(a, b),
                3 => prod.xor(a, b),
                4 => prod.imp(a, b),
                5 => prod.iff(a, b),
                _ => prod.restrict(a, adf_bdd::datatypes::Var(rng.below(nvars)), rng.bool()),
            };
            ops += 1;
            if pool.len() < 200 {
                pool.push(t);
            } else {
                let k = nvars + rng.below(pool.len() - nvars);
                pool[k] = t;
            }
            if rng.chance(1, 6) {
                polls += 1;
                let produced = prod.nodes.len();
                let h = match rng.below(6) {
                    0 => usize::MAX,
                    1 => rng.below(produced),
                    2 => produced + rng.below(50),
                    3 => relay.nodes.len() + rng.below(40),
                    4 => last.nodes.len() + rng.below(40),
                    _ => produced - 1 - rng.below(produced.min(30)),
                };
                if rng.bool() {
                    relay_seen = poll(&mut relay, "relay", produced, h, &prod.nodes)?;
                } else {
                    poll(&mut last, "last store", relay_seen, h, &prod.nodes)?;
                }
            }
        }
        // final drain: relay first, then the last store
        let produced = prod.nodes.len();
        relay_seen = poll(&mut relay, "relay (final drain)", produced, usize::MAX, &prod.nodes)?;
        poll(&mut last, "last store (final drain)", relay_seen, usize::MAX, &prod.nodes)?;
        if relay.nodes != prod.nodes || last.nodes != prod.nodes {
            return Err(format!("after the final drain: producer {} entries, relay {}, last store {}", prod.nodes.len(), relay.nodes.len(), last.nodes.len()));
        }
        // the mirrors answer like the producer (unique tables were filled on the way)
        crate::bddmon::audit_structure(&last.nodes)?;
        let snap = last.verif_snapshot();
        if snap.unique.len() != last.nodes.len() - 2 {
            return Err(format!("last store: unique table has {} entries for {} inner nodes", snap.unique.len(), last.nodes.len() - 2));
        }
        Ok((produced, polls, ops))
    });
    match r {
        Ok(Ok((nodes, polls, ops))) => {
            rep.max("long_stream_max_nodes", nodes as u64);
            rep.count("long_stream_polls", polls as u64);
            rep.count("long_stream_producer_operations", ops as u64);
            rep.nontrivial.insert(crate::common::hash_str(&format!("longstream{}", case_seed)));
        }
        Ok(Err(e)) => rep.violation("stream-mirror", format!("long stream: {}", e), replay(0, "see message")),
        Err(c) => rep.violation(&format!("stream:{}", c.kind()), format!("long stream: {}", c.describe()), replay(0, "panic")),
    }
}
