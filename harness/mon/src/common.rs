//! Shared infrastructure of the monitors: configuration, report, panic capture.

use serde_json::{json, Value};
use std::cell::RefCell;
use std::collections::{BTreeMap, BTreeSet};
use std::panic::{catch_unwind, AssertUnwindSafe};

#[derive(Clone, Debug)]
pub struct Cfg {
    pub prop: String,
    pub seed: u64,
    pub shard: u64,
    pub cases: usize,
    pub thorough: bool,
    pub out: Option<String>,
    pub replay: Option<String>,
    pub extra: BTreeMap<String, String>,
}

impl Cfg {
    pub fn get(&self, key: &str) -> Option<&str> {
        self.extra.get(key).map(|s| s.as_str())
    }
    pub fn get_usize(&self, key: &str, default: usize) -> usize {
        self.get(key).and_then(|v| v.parse().ok()).unwrap_or(default)
    }
    pub fn flag(&self, key: &str) -> bool {
        self.extra.get(key).map(|v| v != "0" && v != "false").unwrap_or(false)
    }
    /// seed of case i of this shard
    pub fn case_seed(&self, i: usize) -> u64 {
        let mut r = oracle::Rng::new(self.seed.wrapping_mul(1_000_003).wrapping_add(self.shard));
        let base = r.next_u64();
        base ^ (i as u64).wrapping_mul(0x9E3779B97F4A7C15)
    }
}

#[derive(Clone, Debug)]
pub struct Violation {
    pub signature: String,
    pub message: String,
    pub replay: Value,
}

#[derive(Default, Debug)]
pub struct Report {
    pub evaluations: u64,
    pub nontrivial: BTreeSet<u64>,
    pub counters: BTreeMap<String, u64>,
    pub maxima: BTreeMap<String, u64>,
    pub distinct: BTreeMap<String, BTreeSet<u64>>,
    pub samples: Vec<Value>,
    pub violations: Vec<Violation>,
    pub inconclusive: Vec<String>,
    pub max_violations: usize,
}

impl Report {
    pub fn new() -> Report {
        Report {
            max_violations: 20,
            ..Default::default()
        }
    }
    pub fn count(&mut self, key: &str, by: u64) {
        *self.counters.entry(key.to_string()).or_insert(0) += by;
    }
    pub fn max(&mut self, key: &str, val: u64) {
        let e = self.maxima.entry(key.to_string()).or_insert(0);
        if val > *e {
            *e = val;
        }
    }
    pub fn distinct(&mut self, key: &str, hash: u64) {
        self.distinct.entry(key.to_string()).or_default().insert(hash);
    }
    pub fn sample(&mut self, v: Value) {
        if self.samples.len() < 6 {
            self.samples.push(v);
        }
    }
    pub fn violation(&mut self, signature: &str, message: String, replay: Value) {
        self.count("violations_total", 1);
        if self.violations.len() < self.max_violations {
            self.violations.push(Violation {
                signature: signature.to_string(),
                message,
                replay,
            });
        }
    }
    pub fn too_many(&self) -> bool {
        self.violations.len() >= self.max_violations
    }
    pub fn to_json(&self, cfg: &Cfg) -> Value {
        json!({
            "property": cfg.prop,
            "seed": cfg.seed,
            "shard": cfg.shard,
            "evaluations": self.evaluations,
            "nontrivial": self.nontrivial.iter().map(|h| format!("{:016x}", h)).collect::<Vec<_>>(),
            "counters": self.counters,
            "maxima": self.maxima,
            "distinct": self.distinct.iter().map(|(k, v)| (k.clone(), v.iter().map(|h| format!("{:016x}", h)).collect::<Vec<_>>())).collect::<BTreeMap<_,_>>(),
            "samples": self.samples,
            "violations": self.violations.iter().map(|v| json!({"signature": v.signature, "message": v.message, "replay": v.replay})).collect::<Vec<_>>(),
            "inconclusive": self.inconclusive,
        })
    }
}

thread_local! {
    static LAST_PANIC: RefCell<Option<String>> = RefCell::new(None);
}

/// install a quiet panic hook that remembers message and location
pub fn install_panic_hook() {
    std::panic::set_hook(Box::new(|info| {
        let msg = if let Some(s) = info.payload().downcast_ref::<&str>() {
            s.to_string()
        } else if let Some(s) = info.payload().downcast_ref::<String>() {
            s.clone()
        } else if let Some(b) = info
            .payload()
            .downcast_ref::<adf_bdd::verif::StepBudgetExceeded>()
        {
            format!("StepBudgetExceeded({})", b.steps)
        } else if let Some(b) = info.payload().downcast_ref::<LoopBudgetExceeded>() {
            format!("LoopBudgetExceeded({})", b.0)
        } else if let Some(b) = info.payload().downcast_ref::<ModelBudgetExceeded>() {
            format!("ModelBudgetExceeded({})", b.0)
        } else {
            "<non-string panic payload>".to_string()
        };
        let loc = info
            .location()
            .map(|l| format!("{}:{}", l.file(), l.line()))
            .unwrap_or_default();
        LAST_PANIC.with(|p| *p.borrow_mut() = Some(format!("{} @ {}", msg, loc)));
    }));
}

/// panic payload raised by a monitor sink when a search loop exceeds its iteration budget
#[derive(Debug, Clone, Copy)]
pub struct LoopBudgetExceeded(pub u64);

/// panic payload raised by a monitor sink when a search reaches more two-valued models than the framework has
#[derive(Debug, Clone, Copy)]
pub struct ModelBudgetExceeded(pub u64);

#[derive(Debug, Clone, PartialEq, Eq)]
pub enum Caught {
    /// the library panicked
    Panic(String),
    /// the step budget set by the monitor was exhausted (bounded progress violated)
    Budget(u64),
    /// the search reached more two-valued models than exist (one of them was reached again)
    Repeat(u64),
}

impl Caught {
    pub fn describe(&self) -> String {
        match self {
            Caught::Panic(m) => format!("panic: {}", m),
            Caught::Budget(s) => format!("step budget exceeded after {} steps", s),
            Caught::Repeat(k) => format!("two-valued model number {} reached although fewer exist", k),
        }
    }
    pub fn kind(&self) -> &'static str {
        match self {
            Caught::Panic(_) => "panic",
            Caught::Budget(_) => "budget",
            Caught::Repeat(_) => "repeat",
        }
    }
}

/// default budget of logical steps (restrict / ite / loop iterations) for one library call on a small input
pub const SMALL_BUDGET: u64 = 20_000_000;

/// run a library call under catch_unwind with a fresh step budget
pub fn guarded<T>(budget: u64, f: impl FnOnce() -> T) -> Result<T, Caught> {
    adf_bdd::verif::set_budget(budget);
    let r = catch_unwind(AssertUnwindSafe(f));
    let steps = adf_bdd::verif::steps();
    adf_bdd::verif::set_budget(u64::MAX);
    LAST_STEPS.with(|s| *s.borrow_mut() = steps);
    match r {
        Ok(v) => Ok(v),
        Err(payload) => {
            if let Some(b) = payload.downcast_ref::<adf_bdd::verif::StepBudgetExceeded>() {
                Err(Caught::Budget(b.steps))
            } else if let Some(b) = payload.downcast_ref::<LoopBudgetExceeded>() {
                Err(Caught::Budget(b.0))
            } else if let Some(b) = payload.downcast_ref::<ModelBudgetExceeded>() {
                Err(Caught::Repeat(b.0))
            } else {
                let msg = LAST_PANIC
                    .with(|p| p.borrow_mut().take())
                    .unwrap_or_else(|| "<unknown panic>".into());
                Err(Caught::Panic(msg))
            }
        }
    }
}

thread_local! {
    static LAST_STEPS: RefCell<u64> = RefCell::new(0);
}

/// steps used by the last guarded call
pub fn last_steps() -> u64 {
    LAST_STEPS.with(|s| *s.borrow())
}

/// run harness code (oracle side); a panic here is a harness error, not a verdict
pub fn harness<T>(f: impl FnOnce() -> T) -> Result<T, String> {
    match catch_unwind(AssertUnwindSafe(f)) {
        Ok(v) => Ok(v),
        Err(_) => Err(LAST_PANIC
            .with(|p| p.borrow_mut().take())
            .unwrap_or_else(|| "<unknown harness panic>".into())),
    }
}

pub fn hash_str(s: &str) -> u64 {
    oracle::fnv(s.as_bytes())
}

/// message of the last panic seen on this thread (for harness failures)
pub fn take_last_panic() -> String {
    LAST_PANIC.with(|p| p.borrow_mut().take()).unwrap_or_else(|| "<no message>".into())
}

/// a logger that accepts everything down to trace level and formats every record (so that the arguments
/// of every log statement in the library are really evaluated), then throws the text away
pub struct DevNullLogger;

pub static LOGGED_RECORDS: std::sync::atomic::AtomicU64 = std::sync::atomic::AtomicU64::new(0);

impl log::Log for DevNullLogger {
    fn enabled(&self, _metadata: &log::Metadata) -> bool {
        true
    }
    fn log(&self, record: &log::Record) {
        use std::fmt::Write;
        let mut sink = String::new();
        let _ = write!(sink, "{}", record.args());
        LOGGED_RECORDS.fetch_add(1, std::sync::atomic::Ordering::Relaxed);
    }
    fn flush(&self) {}
}

static LOGGER: DevNullLogger = DevNullLogger;

pub fn install_trace_logger() {
    if log::set_logger(&LOGGER).is_ok() {
        log::set_max_level(log::LevelFilter::Trace);
    }
}
