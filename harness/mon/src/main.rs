//! Runtime monitors for ellmau/adf-obdd. One sub command per property:
//! `mon <cNN> --seed S --shard I --cases N [--thorough] [--out FILE] [--replay FILE] [--key value ...]`

mod bddmon;
mod cli;
mod common;
mod hist;
mod meta;
mod parse;
mod pipes;
mod probe;
mod sem;
mod small;
#[cfg(feature = "frontend")]
mod stream;

use common::*;
use std::collections::BTreeMap;

fn parse_args() -> Cfg {
    let args: Vec<String> = std::env::args().collect();
    if args.len() < 2 {
        eprintln!("usage: mon <property> [--seed S] [--shard I] [--cases N] [--thorough] [--out FILE] [--replay FILE] [--key value]");
        std::process::exit(64);
    }
    let mut cfg = Cfg {
        prop: args[1].to_lowercase(),
        seed: 1,
        shard: 0,
        cases: 100,
        thorough: false,
        out: None,
        replay: None,
        extra: BTreeMap::new(),
    };
    let mut i = 2;
    while i < args.len() {
        let a = args[i].as_str();
        let val = |i: usize| -> String { args.get(i + 1).cloned().unwrap_or_default() };
        match a {
            "--seed" => {
                cfg.seed = val(i).parse().unwrap_or(1);
                i += 2;
            }
            "--shard" => {
                cfg.shard = val(i).parse().unwrap_or(0);
                i += 2;
            }
            "--cases" => {
                cfg.cases = val(i).parse().unwrap_or(100);
                i += 2;
            }
            "--thorough" => {
                cfg.thorough = true;
                i += 1;
            }
            "--out" => {
                cfg.out = Some(val(i));
                i += 2;
            }
            "--replay" => {
                cfg.replay = Some(val(i));
                i += 2;
            }
            _ if a.starts_with("--") => {
                let key = a.trim_start_matches("--").to_string();
                if i + 1 < args.len() && !args[i + 1].starts_with("--") {
                    cfg.extra.insert(key, args[i + 1].clone());
                    i += 2;
                } else {
                    cfg.extra.insert(key, "1".into());
                    i += 1;
                }
            }
            _ => {
                eprintln!("unexpected argument {}", a);
                std::process::exit(64);
            }
        }
    }
    cfg
}

fn run(cfg: &Cfg, rep: &mut Report) {
    // replay of a single recorded case
    if let Some(path) = &cfg.replay {
        let text = std::fs::read_to_string(path).expect("replay file readable");
        let v: serde_json::Value = serde_json::from_str(&text).expect("replay file is JSON");
        replay(cfg, rep, &v);
        return;
    }
    match cfg.prop.as_str() {
        "c01" => sem::c01(cfg, rep),
        "c02" => sem::c02(cfg, rep),
        "c03" => sem::c03(cfg, rep),
        "c04" => sem::c04(cfg, rep),
        "c05" => sem::c05(cfg, rep),
        "c06" => bddmon::c06(cfg, rep),
        "c07" => bddmon::c07(cfg, rep),
        "c08" => parse::c08(cfg, rep),
        "c09" => parse::c09(cfg, rep),
        "c10" => meta::c10(cfg, rep),
        "c11" => hist::c11(cfg, rep),
        "c13" => bddmon::c13(cfg, rep),
        "c14" => hist::c14(cfg, rep),
        "c18" => small::c18(cfg, rep),
        #[cfg(feature = "frontend")]
        "c19" => stream::c19(cfg, rep),
        "c20" => small::c20(cfg, rep),
        "c15" => cli::c15(cfg, rep),
        "c14cli" => cli::c14cli(cfg, rep),
        "probe" => probe::probe(cfg, rep),
        other => {
            eprintln!("unknown property {}", other);
            std::process::exit(64);
        }
    }
}

fn replay(cfg: &Cfg, rep: &mut Report, v: &serde_json::Value) {
    let case_seed: u64 = v["case_seed"].as_str().and_then(|s| s.parse().ok()).unwrap_or(0);
    let nm = v["nmax"].as_u64().unwrap_or(6) as usize;
    match cfg.prop.as_str() {
        "c01" => sem::c01_case(cfg, rep, case_seed, nm),
        "c02" => sem::c02_case(cfg, rep, case_seed, nm),
        "c03" => sem::c03_case(cfg, rep, case_seed, nm),
        "c04" => sem::c04_case(cfg, rep, case_seed, nm),
        _ => {
            eprintln!("replay not supported for {}", cfg.prop);
            std::process::exit(64);
        }
    }
}

fn main() {
    install_panic_hook();
    let cfg = parse_args();
    // some shards run with a logger at trace level: log statements must be free of side effects
    if cfg.flag("trace_log") {
        install_trace_logger();
    }
    let cfg2 = cfg.clone();
    // big stack: recursive library code on deep inputs must not overflow the harness thread
    let handle = std::thread::Builder::new()
        .stack_size(1 << 30)
        .spawn(move || {
            let mut rep = Report::new();
            let r = std::panic::catch_unwind(std::panic::AssertUnwindSafe(|| run(&cfg2, &mut rep)));
            if r.is_err() {
                rep.inconclusive.push(format!("harness panic outside a guarded library call: {}", take_last_panic()));
            }
            rep
        })
        .expect("spawn main worker");
    let mut rep = handle.join().expect("worker joined");
    if cfg.flag("trace_log") {
        rep.count("log_records_formatted_at_trace_level", LOGGED_RECORDS.load(std::sync::atomic::Ordering::Relaxed));
        rep.count("shards_with_trace_logger", 1);
    }
    let out = serde_json::to_string(&rep.to_json(&cfg)).unwrap();
    match &cfg.out {
        Some(p) => std::fs::write(p, out).expect("write report"),
        None => println!("{}", out),
    }
    if !rep.violations.is_empty() {
        std::process::exit(1);
    }
    if !rep.inconclusive.is_empty() {
        std::process::exit(2);
    }
}
