//! Driving the real code: parser, the back-ends, conversion of answers into oracle terms.

use crate::common::{guarded, Caught, SMALL_BUDGET};
use adf_bdd::adf::heuristics::Heuristic;
use adf_bdd::adf::Adf;
use adf_bdd::adfbiodivine::Adf as BdAdf;
use adf_bdd::datatypes::{Term, Var};
use adf_bdd::parser::AdfParser;
use adf_bdd::verif::Event;
use oracle::gen::GenAdf;
use oracle::{Val, VF, VT, VU};
use std::cell::RefCell;
use std::rc::Rc;

#[derive(Clone, Copy, Debug, PartialEq, Eq)]
pub enum Sort {
    None,
    Lexi,
    Alnum,
}

pub const SORTS: [Sort; 3] = [Sort::None, Sort::Lexi, Sort::Alnum];

impl Sort {
    pub fn name(&self) -> &'static str {
        match self {
            Sort::None => "nosort",
            Sort::Lexi => "lexi",
            Sort::Alnum => "alnum",
        }
    }
}

/// the objects built from one text under one sort mode
pub struct Objs {
    pub text: String,
    pub sort: Sort,
    /// statement names in library variable order
    pub names: Vec<String>,
    pub native: Adf,
    pub bio: Option<BdAdf>,
    pub bio_rw: Option<BdAdf>,
}

#[derive(Debug, Clone)]
pub enum BuildErr {
    Parse(String),
    Caught(Caught),
}

impl BuildErr {
    pub fn describe(&self) -> String {
        match self {
            BuildErr::Parse(m) => format!("parse error: {}", m),
            BuildErr::Caught(c) => c.describe(),
        }
    }
}

/// parse `text` with the real parser, apply the sort mode and build the requested objects
pub fn build(text: &str, sort: Sort, with_bio: bool) -> Result<Objs, BuildErr> {
    let r = guarded(SMALL_BUDGET * 10, || {
        let parser = AdfParser::default();
        match parser.parse()(text) {
            Ok((rem, _)) => {
                if !rem.is_empty() {
                    return Err(format!("remainder {:?}", rem));
                }
            }
            Err(e) => return Err(format!("{}", e)),
        }
        match sort {
            Sort::None => {}
            Sort::Lexi => {
                parser.varsort_lexi();
            }
            Sort::Alnum => {
                parser.varsort_alphanum();
            }
        }
        let native = Adf::from_parser(&parser);
        let (bio, bio_rw) = if with_bio {
            (
                Some(BdAdf::from_parser(&parser)),
                Some(BdAdf::from_parser_with_stm_rewrite(&parser)),
            )
        } else {
            (None, None)
        };
        let names = native.ordering.names().read().unwrap().clone();
        Ok(Objs {
            text: text.to_string(),
            sort,
            names,
            native,
            bio,
            bio_rw,
        })
    });
    match r {
        Ok(Ok(o)) => Ok(o),
        Ok(Err(e)) => Err(BuildErr::Parse(e)),
        Err(c) => Err(BuildErr::Caught(c)),
    }
}

/// perm[lib index] = oracle index
pub fn perm_of(names: &[String], g: &GenAdf) -> Option<Vec<usize>> {
    let mut perm = Vec::with_capacity(names.len());
    for nm in names {
        perm.push(g.labels.iter().position(|l| l == nm)?);
    }
    let mut seen = vec![false; g.n];
    for p in &perm {
        if seen[*p] {
            return None;
        }
        seen[*p] = true;
    }
    if perm.len() != g.n {
        return None;
    }
    Some(perm)
}

pub fn term_val(t: &Term) -> Val {
    if t.is_truth_value() {
        if t.is_true() {
            VT
        } else {
            VF
        }
    } else {
        VU
    }
}

/// library interpretation (library variable order) -> oracle order
pub fn to_vals(interp: &[Term], perm: &[usize]) -> Vec<Val> {
    let mut v = vec![VU; perm.len()];
    for (j, t) in interp.iter().enumerate() {
        if j < perm.len() {
            v[perm[j]] = term_val(t);
        }
    }
    v
}

pub fn to_vals_set(models: &[Vec<Term>], perm: &[usize]) -> Vec<Vec<Val>> {
    models.iter().map(|m| to_vals(m, perm)).collect()
}

/// oracle interpretation -> library order as Terms (undecided = Term::UND is NOT a valid handle in
/// general, so callers that need real handles must not use this for undecided positions)
pub fn from_vals(v: &[Val], perm: &[usize]) -> Vec<Term> {
    perm.iter()
        .map(|o| match v[*o] {
            VT => Term::TOP,
            VF => Term::BOT,
            _ => Term::UND,
        })
        .collect()
}

pub fn sorted(mut v: Vec<Vec<Val>>) -> Vec<Vec<Val>> {
    v.sort();
    v
}

/// compare a returned multiset with the expected set; None if equal
pub fn diff_sets(got: &[Vec<Val>], want: &[Vec<Val>]) -> Option<String> {
    let g = sorted(got.to_vec());
    let w = sorted(want.to_vec());
    if g == w {
        return None;
    }
    let mut missing = Vec::new();
    let mut extra = Vec::new();
    let mut dup = Vec::new();
    for m in &w {
        if !g.contains(m) {
            missing.push(oracle::show_vals(m));
        }
    }
    for (i, m) in g.iter().enumerate() {
        if !w.contains(m) {
            extra.push(oracle::show_vals(m));
        } else if i > 0 && g[i - 1] == *m {
            dup.push(oracle::show_vals(m));
        }
    }
    Some(format!(
        "missing={:?} extra={:?} duplicates={:?} (got {} want {})",
        missing,
        extra,
        dup,
        g.len(),
        w.len()
    ))
}

/// collect events emitted on this thread while `f` runs
pub fn with_events<T>(f: impl FnOnce() -> T) -> (T, Vec<Event>) {
    with_events_limit(u64::MAX, f)
}

thread_local! {
    static MODEL_LIMIT: std::cell::Cell<u64> = const { std::cell::Cell::new(u64::MAX) };
}

/// number of two-valued models the framework under search has according to the oracle (u64::MAX: unknown);
/// a search observed by `with_events_limit` is stopped as soon as it reaches more than that
pub fn set_model_limit(limit: u64) {
    MODEL_LIMIT.with(|m| m.set(limit));
}

/// like `with_events`, additionally bounds the number of search-loop iterations (LoopTop events):
/// exceeding it unwinds with `LoopBudgetExceeded` (bounded progress in logical steps)
pub fn with_events_limit<T>(loop_limit: u64, f: impl FnOnce() -> T) -> (T, Vec<Event>) {
    let log: Rc<RefCell<Vec<Event>>> = Rc::new(RefCell::new(Vec::new()));
    let l2 = log.clone();
    let mut loops = 0u64;
    let mut reached = 0u64;
    let model_limit = MODEL_LIMIT.with(|m| m.get());
    let prev = adf_bdd::verif::set_sink(Some(Box::new(move |e: &Event| {
        if let Event::LoopTop { .. } = e {
            loops += 1;
            if loops > loop_limit {
                std::panic::panic_any(crate::common::LoopBudgetExceeded(loops));
            }
        }
        if let Event::TwoValued { .. } = e {
            // every two-valued model is reached at most once, so never more often than models exist
            reached += 1;
            if reached > model_limit {
                std::panic::panic_any(crate::common::ModelBudgetExceeded(reached));
            }
        }
        let mut g = l2.borrow_mut();
        if g.len() < 2_000_000 {
            g.push(*e);
        }
    })));
    struct Restore(Option<Option<Box<dyn FnMut(&Event)>>>);
    impl Drop for Restore {
        fn drop(&mut self) {
            if let Some(p) = self.0.take() {
                adf_bdd::verif::set_sink(p);
            }
        }
    }
    let _restore = Restore(Some(prev));
    let r = f();
    drop(_restore);
    let ev = log.borrow().clone();
    (r, ev)
}

/// the five ways to obtain a native-representation ADF / a back-end
#[derive(Clone, Copy, Debug, PartialEq, Eq)]
pub enum Backend {
    Native,
    Bio,
    HybridPre,
    HybridNoPre,
    Bridged,
}

pub const BACKENDS: [Backend; 5] = [
    Backend::Native,
    Backend::Bio,
    Backend::HybridPre,
    Backend::HybridNoPre,
    Backend::Bridged,
];

impl Backend {
    pub fn name(&self) -> &'static str {
        match self {
            Backend::Native => "native",
            Backend::Bio => "biodivine",
            Backend::HybridPre => "hybrid+pre",
            Backend::HybridNoPre => "hybrid-pre",
            Backend::Bridged => "bridged",
        }
    }
    pub fn needs_bio(&self) -> bool {
        !matches!(self, Backend::Native)
    }
}

/// fresh native-representation ADF for a back-end (None for the pure biodivine back-end)
pub fn fresh_adf(o: &Objs, b: Backend) -> Option<Adf> {
    match b {
        Backend::Native => Some(parse_native(&o.text, o.sort)),
        Backend::Bio => None,
        Backend::HybridPre => o.bio.as_ref().map(|b| b.hybrid_step()),
        Backend::HybridNoPre => o.bio.as_ref().map(|b| b.hybrid_step_opt(false)),
        Backend::Bridged => o.bio.as_ref().map(Adf::from_biodivine),
    }
}

/// fresh native ADF straight from the text (panics propagate to the enclosing guard)
pub fn parse_native(text: &str, sort: Sort) -> Adf {
    let parser = AdfParser::default();
    parser.parse()(text).expect("text has been parsed before");
    match sort {
        Sort::None => {}
        Sort::Lexi => {
            parser.varsort_lexi();
        }
        Sort::Alnum => {
            parser.varsort_alphanum();
        }
    }
    Adf::from_parser(&parser)
}

/// structural copy of an Adf via serde (documented export/import + repair step)
pub fn clone_adf(a: &Adf) -> Adf {
    let s = serde_json::to_string(a).expect("serialise");
    let mut b: Adf = serde_json::from_str(&s).expect("deserialise");
    b.fix_import();
    b
}

pub type Models = Vec<Vec<Term>>;

pub fn grounded_of(o: &Objs, b: Backend) -> Result<Vec<Term>, Caught> {
    guarded(SMALL_BUDGET, || match b {
        Backend::Bio => o.bio.as_ref().unwrap().grounded(),
        _ => fresh_adf(o, b).unwrap().grounded(),
    })
}

pub fn complete_of(o: &Objs, b: Backend) -> Result<Models, Caught> {
    guarded(SMALL_BUDGET, || match b {
        Backend::Bio => o.bio.as_ref().unwrap().complete().collect(),
        _ => fresh_adf(o, b).unwrap().complete().collect(),
    })
}

/// names of all enumerate-and-check stable procedures (C03)
pub fn stable_procs(with_bio: bool) -> Vec<&'static str> {
    let mut v = vec!["native.stable", "native.prefilter"];
    if with_bio {
        v.extend([
            "bio.stable",
            "bio.rewrite",
            "biorw.rewrite",
            "native.rewrite(bio)",
            "native.rewrite(biorw)",
            "hybrid+pre.stable",
            "hybrid+pre.prefilter",
            "hybrid+pre.rewrite(bio)",
            "hybrid+pre.rewrite(biorw)",
            "hybrid-pre.stable",
            "hybrid-pre.prefilter",
            "hybrid-pre.rewrite(bio)",
            "hybrid-pre.rewrite(biorw)",
            "bridged.stable",
            "bridged.prefilter",
        ]);
    }
    v
}

pub fn run_stable_proc(o: &Objs, name: &str) -> Result<Models, Caught> {
    guarded(SMALL_BUDGET, || {
        let (obj, proc_) = name.split_once('.').unwrap();
        let bio = o.bio.as_ref();
        let biorw = o.bio_rw.as_ref();
        match obj {
            "bio" => match proc_ {
                "stable" => bio.unwrap().stable().collect(),
                "rewrite" => bio.unwrap().stable_bdd_representation(),
                _ => unreachable!(),
            },
            "biorw" => biorw.unwrap().stable_bdd_representation(),
            _ => {
                let b = match obj {
                    "native" => Backend::Native,
                    "hybrid+pre" => Backend::HybridPre,
                    "hybrid-pre" => Backend::HybridNoPre,
                    "bridged" => Backend::Bridged,
                    _ => unreachable!(),
                };
                let mut adf = fresh_adf(o, b).unwrap();
                match proc_ {
                    "stable" => adf.stable().collect(),
                    "prefilter" => adf.stable_with_prefilter().collect(),
                    "rewrite(bio)" => adf.stable_bdd_representation(bio.unwrap()),
                    "rewrite(biorw)" => adf.stable_bdd_representation(biorw.unwrap()),
                    _ => unreachable!(),
                }
            }
        }
    })
}

pub const COUNT_BACKENDS: [Backend; 4] = [
    Backend::Native,
    Backend::HybridPre,
    Backend::HybridNoPre,
    Backend::Bridged,
];

pub fn count_stable(o: &Objs, b: Backend, heu_a: bool) -> Result<(Models, Vec<Event>), Caught> {
    guarded(SMALL_BUDGET, || {
        let mut adf = fresh_adf(o, b).unwrap();
        with_events(|| {
            if heu_a {
                adf.stable_count_optimisation_heu_a().collect::<Vec<_>>()
            } else {
                adf.stable_count_optimisation_heu_b().collect::<Vec<_>>()
            }
        })
    })
}

#[derive(Clone, Copy, Debug, PartialEq, Eq)]
pub enum NgMode {
    /// stable_nogood (iterator)
    StableIter,
    /// stable_nogood_channel
    StableChannel,
    /// two_val_nogood_channel
    TwoValChannel,
}

pub struct NgRun {
    pub models: Models,
    pub events: Vec<Event>,
    /// state of the channel after the call: true if the sender has been dropped
    pub disconnected: bool,
    pub steps: u64,
}

/// run one nogood-learning search on a fresh object
pub fn run_nogood(
    o: &Objs,
    b: Backend,
    mode: NgMode,
    heu: Heuristic,
    rand_seed: Option<[u8; 32]>,
    budget: u64,
    loop_limit: u64,
) -> Result<NgRun, Caught> {
    let r = guarded(budget, || {
        let mut adf = fresh_adf(o, b).unwrap();
        if let Some(s) = rand_seed {
            adf.seed(s);
        }
        match mode {
            NgMode::StableIter => {
                let (models, events) = with_events_limit(loop_limit, || adf.stable_nogood(heu).collect::<Vec<_>>());
                (models, events, true)
            }
            NgMode::StableChannel | NgMode::TwoValChannel => {
                let (s, r) = crossbeam_channel::unbounded::<Vec<Term>>();
                let ((), events) = with_events_limit(loop_limit, || {
                    if mode == NgMode::StableChannel {
                        adf.stable_nogood_channel(heu, s)
                    } else {
                        adf.two_val_nogood_channel(heu, s)
                    }
                });
                let mut models = Vec::new();
                let disconnected;
                loop {
                    match r.try_recv() {
                        Ok(m) => models.push(m),
                        Err(crossbeam_channel::TryRecvError::Disconnected) => {
                            disconnected = true;
                            break;
                        }
                        Err(crossbeam_channel::TryRecvError::Empty) => {
                            disconnected = false;
                            break;
                        }
                    }
                }
                (models, events, disconnected)
            }
        }
    });
    let steps = crate::common::last_steps();
    r.map(|(models, events, disconnected)| NgRun {
        models,
        events,
        disconnected,
        steps,
    })
}

/// walk a diagram from `root` under an assignment given per library variable index
pub fn walk(nodes: &[adf_bdd::datatypes::BddNode], root: Term, asg: &dyn Fn(usize) -> bool) -> Result<bool, String> {
    let mut t = root;
    let mut steps = 0;
    loop {
        if t == Term::TOP {
            return Ok(true);
        }
        if t == Term::BOT {
            return Ok(false);
        }
        let node = nodes
            .get(t.value())
            .ok_or_else(|| format!("handle {} out of range", t.value()))?;
        let v = node.var();
        if v.is_constant() {
            return Err(format!("inner handle {} points to a constant node", t.value()));
        }
        t = if asg(v.value()) { node.hi() } else { node.lo() };
        steps += 1;
        if steps > nodes.len() + 2 {
            return Err("cycle while walking the diagram".into());
        }
    }
}

thread_local! {
    /// optional sparse numbering of the variables of the store under test: VARMAP[logical] = actual Var number.
    /// All harness-side reasoning (truth tables, supports) is done on logical indices.
    static VARMAP: RefCell<Option<Vec<usize>>> = RefCell::new(None);
}

pub struct VarMapGuard;

impl Drop for VarMapGuard {
    fn drop(&mut self) {
        VARMAP.with(|m| *m.borrow_mut() = None);
    }
}

/// install a sparse variable numbering for the current thread until the guard is dropped
pub fn set_varmap(map: Option<Vec<usize>>) -> VarMapGuard {
    VARMAP.with(|m| *m.borrow_mut() = map);
    VarMapGuard
}

/// logical index of an actual variable number (identity without a map; unknown variables map beyond the range)
pub fn logical(actual: usize) -> usize {
    VARMAP.with(|m| match m.borrow().as_ref() {
        None => actual,
        Some(v) => v.iter().position(|a| *a == actual).unwrap_or(usize::MAX / 2),
    })
}

/// actual variable number of a logical index (indices beyond the map get numbers beyond the last one)
pub fn actual(logical: usize) -> usize {
    VARMAP.with(|m| match m.borrow().as_ref() {
        None => logical,
        Some(v) => v.get(logical).copied().unwrap_or_else(|| v.last().copied().unwrap_or(0) + 3 + logical),
    })
}

pub fn varmap_active() -> bool {
    VARMAP.with(|m| m.borrow().is_some())
}

/// truth table (over nvars library variables, assignment bit i = Var(i)) of a handle
pub fn tt_of(nodes: &[adf_bdd::datatypes::BddNode], root: Term, nvars: usize) -> Result<oracle::TT, String> {
    let err: RefCell<Option<String>> = RefCell::new(None);
    let t = oracle::TT::from_fn(nvars, |a| match walk(nodes, root, &|i| (a >> logical(i).min(63)) & 1 == 1) {
        Ok(b) => b,
        Err(e) => {
            *err.borrow_mut() = Some(e);
            false
        }
    });
    match err.into_inner() {
        Some(e) => Err(e),
        None => Ok(t),
    }
}

pub fn var(i: usize) -> Var {
    Var(i)
}


/// answers taken from ONE parser object that is re-sorted between instantiations
/// (parse once; instantiate; sort; instantiate again; ...). Everything is evaluated before the next
/// sort, because sorting may invalidate what was built before (documented), but not what is built after.
pub struct StageAnswers {
    pub sort: Sort,
    pub names: Vec<String>,
    pub grounded: Vec<(&'static str, Vec<Term>)>,
    pub complete: Vec<(&'static str, Models)>,
    pub stable: Vec<(&'static str, Models)>,
    /// root handles and node table of the native object (for the per-statement function check)
    pub native_ac: Vec<Term>,
    pub native_nodes: Vec<adf_bdd::datatypes::BddNode>,
    pub bridged_ac: Vec<Term>,
    pub bridged_nodes: Vec<adf_bdd::datatypes::BddNode>,
}

pub fn reused_parser_stages(text: &str, sorts: &[Sort], with_bio: bool) -> Result<Vec<StageAnswers>, BuildErr> {
    let r = guarded(SMALL_BUDGET * 10, || {
        let parser = AdfParser::default();
        if let Err(e) = parser.parse()(text) {
            return Err(format!("{}", e));
        }
        let mut out = Vec::new();
        for sort in sorts {
            match sort {
                Sort::None => {}
                Sort::Lexi => {
                    parser.varsort_lexi();
                }
                Sort::Alnum => {
                    parser.varsort_alphanum();
                }
            }
            let mut native = Adf::from_parser(&parser);
            let names = native.ordering.names().read().unwrap().clone();
            let native_ac = native.ac.clone();
            let native_nodes = native.bdd.nodes.clone();
            let mut grounded = vec![("native", native.grounded())];
            let mut complete = vec![("native", native.complete().collect::<Vec<_>>())];
            let mut stable = vec![("native", native.stable().collect::<Vec<_>>())];
            let (mut bridged_ac, mut bridged_nodes) = (Vec::new(), Vec::new());
            if with_bio {
                let bio = BdAdf::from_parser_with_stm_rewrite(&parser);
                grounded.push(("biodivine", bio.grounded()));
                complete.push(("biodivine", bio.complete().collect()));
                stable.push(("biodivine", bio.stable().collect()));
                stable.push(("biodivine.rewrite", bio.stable_bdd_representation()));
                let mut hy = bio.hybrid_step_opt(false);
                bridged_ac = hy.ac.clone();
                bridged_nodes = hy.bdd.nodes.clone();
                grounded.push(("hybrid", hy.grounded()));
                stable.push(("hybrid", hy.stable().collect()));
            }
            out.push(StageAnswers {
                sort: *sort,
                names,
                grounded,
                complete,
                stable,
                native_ac,
                native_nodes,
                bridged_ac,
                bridged_nodes,
            });
        }
        Ok(out)
    });
    match r {
        Ok(Ok(o)) => Ok(o),
        Ok(Err(e)) => Err(BuildErr::Parse(e)),
        Err(c) => Err(BuildErr::Caught(c)),
    }
}

/// D14 (known finding of C12): with ad-hoc MODEL counting the store multiplies by 2^(depth difference) in machine
/// words while it creates a node, so a diagram of 64+ levels cannot be built when overflow checks are on. A monitor
/// that meets this on a tall framework in such a build has no object to judge: it counts the case and moves on,
/// unless it runs on behalf of C12 (`--for_c12`), which reports it under its own signature. Returns true when the
/// failure was this one (the caller stops judging the case).
pub fn tall_abort_is_known(cfg: &crate::common::Cfg, rep: &mut crate::common::Report, msg: &str, statements: usize, replay: serde_json::Value) -> bool {
    if !(cfg!(feature = "adhoccountmodels") && msg.contains("overflow")) {
        return false;
    }
    if cfg.flag("for_c12") {
        rep.violation(
            "tall-diagram-aborts:adhoccountmodels",
            format!("{} statements, a condition chained over nearly all of them: {}", statements, msg),
            replay,
        );
    } else {
        rep.count("tall_originals_that_cannot_be_built_with_adhoccountmodels", 1);
    }
    true
}
