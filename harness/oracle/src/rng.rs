//! splitmix64 based deterministic generator

#[derive(Clone, Debug)]
pub struct Rng(pub u64);

impl Rng {
    pub fn new(seed: u64) -> Self {
        let mut r = Rng(seed ^ 0x9E3779B97F4A7C15);
        r.next_u64();
        r
    }

    /// derive an independent stream
    pub fn fork(&mut self, salt: u64) -> Rng {
        let s = self.next_u64() ^ salt.wrapping_mul(0xD1B54A32D192ED03);
        Rng::new(s)
    }

    pub fn next_u64(&mut self) -> u64 {
        self.0 = self.0.wrapping_add(0x9E3779B97F4A7C15);
        let mut z = self.0;
        z = (z ^ (z >> 30)).wrapping_mul(0xBF58476D1CE4E5B9);
        z = (z ^ (z >> 27)).wrapping_mul(0x94D049BB133111EB);
        z ^ (z >> 31)
    }

    /// uniform in 0..n (n > 0)
    pub fn below(&mut self, n: usize) -> usize {
        assert!(n > 0);
        (self.next_u64() % (n as u64)) as usize
    }

    /// uniform in lo..=hi
    pub fn range(&mut self, lo: usize, hi: usize) -> usize {
        lo + self.below(hi - lo + 1)
    }

    pub fn bool(&mut self) -> bool {
        self.next_u64() & 1 == 1
    }

    /// true with probability num/den
    pub fn chance(&mut self, num: usize, den: usize) -> bool {
        self.below(den) < num
    }

    pub fn pick<'a, T>(&mut self, xs: &'a [T]) -> &'a T {
        &xs[self.below(xs.len())]
    }

    pub fn shuffle<T>(&mut self, xs: &mut [T]) {
        for i in (1..xs.len()).rev() {
            let j = self.below(i + 1);
            xs.swap(i, j);
        }
    }

    pub fn perm(&mut self, n: usize) -> Vec<usize> {
        let mut p: Vec<usize> = (0..n).collect();
        self.shuffle(&mut p);
        p
    }
}
