//! Own formula AST (independent of the parser under test).

use crate::rng::Rng;
use crate::tt::TT;

#[derive(Clone, Debug, PartialEq, Eq, Hash)]
pub enum F {
    Top,
    Bot,
    Atom(usize),
    Not(Box<F>),
    And(Box<F>, Box<F>),
    Or(Box<F>, Box<F>),
    Imp(Box<F>, Box<F>),
    Xor(Box<F>, Box<F>),
    Iff(Box<F>, Box<F>),
}

impl F {
    pub fn not(a: F) -> F {
        F::Not(Box::new(a))
    }
    pub fn and(a: F, b: F) -> F {
        F::And(Box::new(a), Box::new(b))
    }
    pub fn or(a: F, b: F) -> F {
        F::Or(Box::new(a), Box::new(b))
    }
    pub fn imp(a: F, b: F) -> F {
        F::Imp(Box::new(a), Box::new(b))
    }
    pub fn xor(a: F, b: F) -> F {
        F::Xor(Box::new(a), Box::new(b))
    }
    pub fn iff(a: F, b: F) -> F {
        F::Iff(Box::new(a), Box::new(b))
    }

    /// conjunction of a list (Top for the empty list), right nested
    pub fn and_all(mut xs: Vec<F>) -> F {
        match xs.len() {
            0 => F::Top,
            1 => xs.pop().unwrap(),
            _ => {
                let first = xs.remove(0);
                F::and(first, F::and_all(xs))
            }
        }
    }

    /// disjunction of a list (Bot for the empty list), left nested
    pub fn or_all(mut xs: Vec<F>) -> F {
        match xs.len() {
            0 => F::Bot,
            1 => xs.pop().unwrap(),
            _ => {
                let last = xs.pop().unwrap();
                F::or(F::or_all(xs), last)
            }
        }
    }

    /// evaluation under a total assignment
    pub fn eval(&self, asg: &dyn Fn(usize) -> bool) -> bool {
        match self {
            F::Top => true,
            F::Bot => false,
            F::Atom(i) => asg(*i),
            F::Not(a) => !a.eval(asg),
            F::And(a, b) => a.eval(asg) && b.eval(asg),
            F::Or(a, b) => a.eval(asg) || b.eval(asg),
            F::Imp(a, b) => !a.eval(asg) || b.eval(asg),
            F::Xor(a, b) => a.eval(asg) != b.eval(asg),
            F::Iff(a, b) => a.eval(asg) == b.eval(asg),
        }
    }

    /// strong Kleene evaluation under a three-valued assignment (0 = false, 1 = true, 2 = undecided). For a
    /// read-once formula (every atom occurs at most once) this is exactly the value shared by all completions,
    /// i.e. the three-valued consequence operator; in general it is only a lower bound on the information.
    pub fn kleene(&self, asg: &dyn Fn(usize) -> u8) -> u8 {
        let not = |x: u8| match x {
            0 => 1,
            1 => 0,
            _ => 2,
        };
        let and = |x: u8, y: u8| {
            if x == 0 || y == 0 {
                0
            } else if x == 1 && y == 1 {
                1
            } else {
                2
            }
        };
        let or = |x: u8, y: u8| not(and(not(x), not(y)));
        match self {
            F::Top => 1,
            F::Bot => 0,
            F::Atom(i) => asg(*i),
            F::Not(a) => not(a.kleene(asg)),
            F::And(a, b) => and(a.kleene(asg), b.kleene(asg)),
            F::Or(a, b) => or(a.kleene(asg), b.kleene(asg)),
            F::Imp(a, b) => or(not(a.kleene(asg)), b.kleene(asg)),
            F::Xor(a, b) => {
                let (x, y) = (a.kleene(asg), b.kleene(asg));
                if x == 2 || y == 2 {
                    2
                } else {
                    (x != y) as u8
                }
            }
            F::Iff(a, b) => {
                let (x, y) = (a.kleene(asg), b.kleene(asg));
                if x == 2 || y == 2 {
                    2
                } else {
                    (x == y) as u8
                }
            }
        }
    }

    /// every atom occurs at most once
    pub fn read_once(&self) -> bool {
        let mut v = Vec::new();
        self.atoms(&mut v);
        let mut w = v.clone();
        w.sort_unstable();
        w.dedup();
        w.len() == v.len()
    }

    /// truth table over n variables (atom i = variable i)
    pub fn tt(&self, n: usize) -> TT {
        match self {
            F::Top => TT::constant(n, true),
            F::Bot => TT::constant(n, false),
            F::Atom(i) => TT::var(n, *i),
            F::Not(a) => a.tt(n).not(),
            F::And(a, b) => a.tt(n).and(&b.tt(n)),
            F::Or(a, b) => a.tt(n).or(&b.tt(n)),
            F::Imp(a, b) => a.tt(n).imp(&b.tt(n)),
            F::Xor(a, b) => a.tt(n).xor(&b.tt(n)),
            F::Iff(a, b) => a.tt(n).iff(&b.tt(n)),
        }
    }

    /// truth table with atoms mapped through `map` (atom i = variable map[i])
    pub fn tt_mapped(&self, n: usize, map: &[usize]) -> TT {
        self.rename(map).tt(n)
    }

    pub fn rename(&self, map: &[usize]) -> F {
        match self {
            F::Top => F::Top,
            F::Bot => F::Bot,
            F::Atom(i) => F::Atom(map[*i]),
            F::Not(a) => F::not(a.rename(map)),
            F::And(a, b) => F::and(a.rename(map), b.rename(map)),
            F::Or(a, b) => F::or(a.rename(map), b.rename(map)),
            F::Imp(a, b) => F::imp(a.rename(map), b.rename(map)),
            F::Xor(a, b) => F::xor(a.rename(map), b.rename(map)),
            F::Iff(a, b) => F::iff(a.rename(map), b.rename(map)),
        }
    }

    pub fn atoms(&self, out: &mut Vec<usize>) {
        match self {
            F::Top | F::Bot => {}
            F::Atom(i) => {
                if !out.contains(i) {
                    out.push(*i)
                }
            }
            F::Not(a) => a.atoms(out),
            F::And(a, b) | F::Or(a, b) | F::Imp(a, b) | F::Xor(a, b) | F::Iff(a, b) => {
                a.atoms(out);
                b.atoms(out);
            }
        }
    }

    pub fn atom_list(&self) -> Vec<usize> {
        let mut v = Vec::new();
        self.atoms(&mut v);
        v.sort_unstable();
        v
    }

    pub fn depth(&self) -> usize {
        match self {
            F::Top | F::Bot | F::Atom(_) => 0,
            F::Not(a) => 1 + a.depth(),
            F::And(a, b) | F::Or(a, b) | F::Imp(a, b) | F::Xor(a, b) | F::Iff(a, b) => {
                1 + a.depth().max(b.depth())
            }
        }
    }

    pub fn size(&self) -> usize {
        match self {
            F::Top | F::Bot | F::Atom(_) => 1,
            F::Not(a) => 1 + a.size(),
            F::And(a, b) | F::Or(a, b) | F::Imp(a, b) | F::Xor(a, b) | F::Iff(a, b) => {
                1 + a.size() + b.size()
            }
        }
    }

    /// bit set of constructor kinds used (for non-triviality rules)
    pub fn kinds(&self) -> u32 {
        match self {
            F::Top => 1,
            F::Bot => 2,
            F::Atom(_) => 4,
            F::Not(a) => 8 | a.kinds(),
            F::And(a, b) => 16 | a.kinds() | b.kinds(),
            F::Or(a, b) => 32 | a.kinds() | b.kinds(),
            F::Imp(a, b) => 64 | a.kinds() | b.kinds(),
            F::Xor(a, b) => 128 | a.kinds() | b.kinds(),
            F::Iff(a, b) => 256 | a.kinds() | b.kinds(),
        }
    }

    /// textual form in the input format. `label(i)` gives the already quoted spelling of
    /// atom i; `ws` yields the whitespace to put before and after a comma.
    pub fn render(&self, label: &dyn Fn(usize) -> String, ws: &mut dyn FnMut() -> String) -> String {
        let mut out = String::new();
        self.render_into(label, ws, &mut out);
        out
    }

    fn render_into(
        &self,
        label: &dyn Fn(usize) -> String,
        ws: &mut dyn FnMut() -> String,
        out: &mut String,
    ) {
        let bin = |name: &str, a: &F, b: &F, out: &mut String, ws: &mut dyn FnMut() -> String| {
            out.push_str(name);
            out.push('(');
            a.render_into(label, ws, out);
            out.push_str(&ws());
            out.push(',');
            out.push_str(&ws());
            b.render_into(label, ws, out);
            out.push(')');
        };
        match self {
            F::Top => out.push_str("c(v)"),
            F::Bot => out.push_str("c(f)"),
            F::Atom(i) => out.push_str(&label(*i)),
            F::Not(a) => {
                out.push_str("neg(");
                a.render_into(label, ws, out);
                out.push(')');
            }
            F::And(a, b) => bin("and", a, b, out, ws),
            F::Or(a, b) => bin("or", a, b, out, ws),
            F::Imp(a, b) => bin("imp", a, b, out, ws),
            F::Xor(a, b) => bin("xor", a, b, out, ws),
            F::Iff(a, b) => bin("iff", a, b, out, ws),
        }
    }

    /// a formula for the Boolean function given by a truth table (disjunctive normal form; `style` varies the
    /// way it is written: 0 = DNF, 1 = negated DNF of the complement, 2 = DNF with implications for the literals)
    pub fn from_tt(tt: &TT, style: usize) -> F {
        let n = tt.n;
        if tt.is_true() {
            return if style == 1 { F::not(F::Bot) } else { F::Top };
        }
        if tt.is_false() {
            return if style == 1 { F::not(F::Top) } else { F::Bot };
        }
        let dnf = |t: &TT| -> F {
            let mut terms = Vec::new();
            for a in 0..TT::size(n) {
                if t.get(a) {
                    let lits: Vec<F> = (0..n)
                        .map(|i| {
                            if (a >> i) & 1 == 1 {
                                F::Atom(i)
                            } else if style == 2 {
                                F::imp(F::Atom(i), F::Bot)
                            } else {
                                F::not(F::Atom(i))
                            }
                        })
                        .collect();
                    terms.push(F::and_all(lits));
                }
            }
            F::or_all(terms)
        };
        if style == 1 {
            F::not(dnf(&tt.not()))
        } else {
            dnf(tt)
        }
    }

    /// random formula over the given atoms
    pub fn random(rng: &mut Rng, atoms: &[usize], depth: usize) -> F {
        if depth == 0 || rng.chance(1, 5) {
            return match rng.below(12) {
                0 => F::Top,
                1 => F::Bot,
                _ => {
                    if atoms.is_empty() {
                        if rng.bool() {
                            F::Top
                        } else {
                            F::Bot
                        }
                    } else {
                        F::Atom(*rng.pick(atoms))
                    }
                }
            };
        }
        match rng.below(8) {
            0 | 1 => F::not(F::random(rng, atoms, depth - 1)),
            2 => F::and(
                F::random(rng, atoms, depth - 1),
                F::random(rng, atoms, depth - 1),
            ),
            3 => F::or(
                F::random(rng, atoms, depth - 1),
                F::random(rng, atoms, depth - 1),
            ),
            4 => F::imp(
                F::random(rng, atoms, depth - 1),
                F::random(rng, atoms, depth - 1),
            ),
            5 => F::xor(
                F::random(rng, atoms, depth - 1),
                F::random(rng, atoms, depth - 1),
            ),
            6 => F::iff(
                F::random(rng, atoms, depth - 1),
                F::random(rng, atoms, depth - 1),
            ),
            _ => F::and(
                F::random(rng, atoms, depth - 1),
                F::not(F::random(rng, atoms, depth - 1)),
            ),
        }
    }
}

#[cfg(test)]
mod test {
    use super::*;
    #[test]
    fn eval_and_tt_agree() {
        let mut rng = Rng::new(7);
        for _ in 0..200 {
            let f = F::random(&mut rng, &[0, 1, 2, 3], 4);
            let t = f.tt(4);
            for a in 0..16usize {
                assert_eq!(t.get(a), f.eval(&|i| (a >> i) & 1 == 1));
            }
        }
    }
}
