//! Workload generator G-ADF: ADFs from several structured families plus random ones,
//! hostile labels, random fact order and layout. The text produced here goes through the
//! real parser of the code under test.

use crate::formula::F;
use crate::rng::Rng;

/// characters that biodivine refuses in variable names (known finding D9)
pub const BIO_FORBIDDEN: [char; 11] = ['!', '&', '|', '^', '=', '<', '>', '(', ')', '?', ':'];

#[derive(Clone, Debug)]
pub struct GenAdf {
    pub n: usize,
    /// label content (without quotes)
    pub labels: Vec<String>,
    pub ac: Vec<F>,
    pub family: &'static str,
}

#[derive(Clone, Debug, PartialEq, Eq)]
pub enum Fact {
    S(usize),
    Ac(usize),
}

/// a concrete presentation of an ADF
#[derive(Clone, Debug)]
pub struct Rendered {
    pub text: String,
    /// statements in the order of their first `s` fact (this is the variable order without sorting)
    pub decl_order: Vec<usize>,
    pub facts: Vec<Fact>,
}

const PLAIN: &[&str] = &[
    "a", "b", "d", "e", "g", "h", "x", "y", "z", "p", "q", "r", "x1", "x2", "x10", "y3", "st", "foo", "bar",
    "A", "B", "Zed", "aB", "n0", "m1", "w", "k9",
];
const KEYWORDISH: &[&str] = &[
    "and", "or", "neg", "imp", "iff", "xor", "c", "s", "ac", "v", "f", "andy", "cv", "cf", "or1", "negate",
    "sand", "acd", "iffy", "xorx", "impl", "cc", "sac", "not", "true", "false", "andor", "s1", "ac2", "c0",
];
const DIGITS: &[&str] = &["0", "1", "2", "10", "11", "20", "007", "42", "9", "100"];
const QUOTED_SAFE: &[&str] = &[
    "a b", "x,y", " lead", "trail ", "a.b", "s.a", "ü", "äö ß", "a\tb", "two  blanks", "and,or", "x y z",
    "1 2", "c,v", "dot.", ",", ".", "a-b", "a_b", "#1", "a+b", "q'r", "new\nline", "λ", "日本",
];
const QUOTED_BIO_UNSAFE: &[&str] = &[
    "p(q)", "s(a).", "neg(x)", "c(v)", "a&b", "a|b", "x=y", "!a", "a?b:c", "<x>", "a^b", "and(a,b)", "(", ")",
];

pub fn is_alnum(label: &str) -> bool {
    !label.is_empty() && label.chars().all(|c| c.is_ascii_alphanumeric())
}

pub fn bio_safe_label(label: &str) -> bool {
    !label.chars().any(|c| BIO_FORBIDDEN.contains(&c))
}

pub fn is_special_label(label: &str) -> bool {
    !is_alnum(label) || KEYWORDISH.contains(&label)
}

#[derive(Clone, Copy, Debug, PartialEq, Eq)]
pub enum LabelMode {
    /// only plain alphanumeric labels
    Plain,
    /// plain, keyword look-alikes, digits, quoted labels that biodivine accepts
    BioSafe,
    /// everything, including quoted labels with characters biodivine refuses
    All,
}

pub fn gen_labels(rng: &mut Rng, n: usize, mode: LabelMode) -> Vec<String> {
    let mut out: Vec<String> = Vec::new();
    let mut guard = 0;
    while out.len() < n {
        guard += 1;
        let cand: String = if guard > 2000 {
            format!("gen{}", out.len())
        } else {
            match mode {
                LabelMode::Plain => match rng.below(4) {
                    0 => format!("{}{}", rng.pick(PLAIN), rng.below(100)),
                    _ => rng.pick(PLAIN).to_string(),
                },
                LabelMode::BioSafe | LabelMode::All => match rng.below(10) {
                    0..=2 => rng.pick(PLAIN).to_string(),
                    3..=5 => rng.pick(KEYWORDISH).to_string(),
                    6 => rng.pick(DIGITS).to_string(),
                    7 => format!("{}{}", rng.pick(KEYWORDISH), rng.below(30)),
                    8 => rng.pick(QUOTED_SAFE).to_string(),
                    _ => {
                        if mode == LabelMode::All && rng.bool() {
                            rng.pick(QUOTED_BIO_UNSAFE).to_string()
                        } else {
                            rng.pick(QUOTED_SAFE).to_string()
                        }
                    }
                },
            }
        };
        if !out.contains(&cand) && !cand.contains('"') {
            out.push(cand);
        }
    }
    out
}

impl GenAdf {
    pub fn bio_safe(&self) -> bool {
        self.labels.iter().all(|l| bio_safe_label(l))
    }

    pub fn special_labels(&self) -> usize {
        self.labels.iter().filter(|l| is_special_label(l)).count()
    }

    /// canonical rendering (used for hashing / samples): declaration in index order, no extra layout
    pub fn canonical(&self) -> String {
        let mut s = String::new();
        for l in &self.labels {
            s.push_str(&format!("s({}).", spell(l, false)));
        }
        for (i, f) in self.ac.iter().enumerate() {
            let lab = |j: usize| spell(&self.labels[j], false);
            let mut ws = || String::new();
            s.push_str(&format!(
                "ac({},{}).",
                spell(&self.labels[i], false),
                f.render(&lab, &mut ws)
            ));
        }
        s
    }

    /// canonical rendering with positional labels only (structure hash independent of labels)
    pub fn structure_key(&self) -> String {
        let mut s = String::new();
        for (i, f) in self.ac.iter().enumerate() {
            let lab = |j: usize| format!("#{}", j);
            let mut ws = || String::new();
            s.push_str(&format!("{}:{};", i, f.render(&lab, &mut ws)));
        }
        s
    }

    /// random presentation: fact order, quoting, white space
    pub fn render(&self, rng: &mut Rng, layout: bool) -> Rendered {
        let decl_order = rng.perm(self.n);
        let ac_order = rng.perm(self.n);
        let mut facts: Vec<Fact> = Vec::new();
        match rng.below(4) {
            0 => {
                facts.extend(decl_order.iter().map(|i| Fact::S(*i)));
                facts.extend(ac_order.iter().map(|i| Fact::Ac(*i)));
            }
            1 => {
                facts.extend(ac_order.iter().map(|i| Fact::Ac(*i)));
                facts.extend(decl_order.iter().map(|i| Fact::S(*i)));
            }
            _ => {
                // random merge preserving both relative orders
                let (mut i, mut j) = (0, 0);
                while i < self.n || j < self.n {
                    let take_s = if i == self.n {
                        false
                    } else if j == self.n {
                        true
                    } else {
                        rng.bool()
                    };
                    if take_s {
                        facts.push(Fact::S(decl_order[i]));
                        i += 1;
                    } else {
                        facts.push(Fact::Ac(ac_order[j]));
                        j += 1;
                    }
                }
            }
        }
        // occasionally repeat a declaration (allowed: duplicates are ignored)
        if layout && rng.chance(1, 6) && self.n > 0 {
            let pos = rng.below(facts.len() + 1);
            let st = decl_order[rng.below(self.n)];
            // only after its first declaration, so the first-declaration order is unchanged
            let first = facts.iter().position(|f| *f == Fact::S(st)).unwrap();
            let pos = pos.max(first + 1);
            facts.insert(pos, Fact::S(st));
        }
        let text = self.render_facts(&facts, rng, layout);
        Rendered {
            text,
            decl_order,
            facts,
        }
    }

    pub fn render_facts(&self, facts: &[Fact], rng: &mut Rng, layout: bool) -> String {
        let mut text = String::new();
        let after_dot: &[&str] = &["", "", "\n", " ", "\n\n", "\t", " \n ", "\r\n", "  "];
        let around_comma: &[&str] = &["", "", "", " ", "  ", "\n", "\t", " \n\t"];
        let mut wsrng = rng.fork(17);
        let mut qrng = rng.fork(18);
        for fact in facts {
            match fact {
                Fact::S(i) => {
                    let q = layout && qrng.chance(1, 8);
                    text.push_str(&format!("s({}).", spell(&self.labels[*i], q)));
                }
                Fact::Ac(i) => {
                    let q = layout && qrng.chance(1, 8);
                    let qseed = qrng.next_u64();
                    let labels = &self.labels;
                    let lab = move |j: usize| {
                        // deterministic per occurrence class: quote some alnum atoms
                        let force = layout && (qseed.wrapping_add(j as u64 * 7919) % 9 == 0);
                        spell(&labels[j], force)
                    };
                    let mut ws = || {
                        if layout {
                            wsrng.pick(around_comma).to_string()
                        } else {
                            String::new()
                        }
                    };
                    let body = self.ac[*i].render(&lab, &mut ws);
                    let w1 = ws();
                    let w2 = ws();
                    text.push_str(&format!(
                        "ac({}{},{}{}).",
                        spell(&self.labels[*i], q),
                        w1,
                        w2,
                        body
                    ));
                }
            }
            if layout {
                let w: &str = *rng.pick(after_dot);
                text.push_str(w);
            }
        }
        text
    }
}

/// spelling of a label in the input format: quoted if necessary (or if forced)
pub fn spell(label: &str, force_quote: bool) -> String {
    if force_quote || !is_alnum(label) {
        format!("\"{}\"", label)
    } else {
        label.to_string()
    }
}

pub const FAMILIES: &[&str] = &[
    "random", "af", "chain", "cycle", "bipolar", "parity", "false_first", "dup", "mixed", "selfsup", "random_deep",
];

/// generate one ADF with n statements
pub fn gen_adf(rng: &mut Rng, n: usize, mode: LabelMode) -> GenAdf {
    let family = *rng.pick(FAMILIES);
    gen_adf_family(rng, n, mode, family)
}

pub fn gen_adf_family(rng: &mut Rng, n: usize, mode: LabelMode, family: &'static str) -> GenAdf {
    let labels = gen_labels(rng, n, mode);
    let all: Vec<usize> = (0..n).collect();
    let mut ac: Vec<F> = Vec::with_capacity(n);
    let subset = |rng: &mut Rng, max: usize| -> Vec<usize> {
        let k = rng.below(max.min(n) + 1);
        let mut p = rng.perm(n);
        p.truncate(k);
        p
    };
    match family {
        "af" => {
            for _ in 0..n {
                let att = subset(rng, 3);
                ac.push(F::and_all(att.into_iter().map(|a| F::not(F::Atom(a))).collect()));
            }
        }
        "chain" => {
            // support / attack chains along a random permutation: many propagation rounds
            let p = rng.perm(n);
            let mut tmp = vec![F::Top; n];
            for (k, s) in p.iter().enumerate() {
                tmp[*s] = if k == 0 {
                    if rng.chance(3, 4) {
                        F::Top
                    } else {
                        F::Bot
                    }
                } else {
                    let prev = F::Atom(p[k - 1]);
                    match rng.below(5) {
                        0 => F::not(prev),
                        1 => F::and(prev, F::Top),
                        2 => F::or(prev, F::Bot),
                        3 if k >= 2 => F::and(prev, F::Atom(p[k - 2])),
                        _ => prev,
                    }
                };
            }
            ac = tmp;
        }
        "cycle" => {
            // negative / positive cycles plus some tail
            let p = rng.perm(n);
            let mut tmp = vec![F::Top; n];
            let clen = if n == 0 { 0 } else { rng.range(1, n) };
            for k in 0..n {
                let s = p[k];
                if k < clen {
                    let prev = F::Atom(p[(k + clen - 1) % clen]);
                    tmp[s] = if rng.chance(2, 3) { F::not(prev) } else { prev };
                } else {
                    let prev = F::Atom(p[k - 1]);
                    tmp[s] = if rng.bool() { F::not(prev) } else { prev };
                }
            }
            ac = tmp;
        }
        "bipolar" => {
            for _ in 0..n {
                let sup = subset(rng, 2);
                let att = subset(rng, 2);
                let mut parts: Vec<F> = Vec::new();
                if !sup.is_empty() {
                    let s: Vec<F> = sup.into_iter().map(F::Atom).collect();
                    parts.push(if rng.bool() { F::or_all(s) } else { F::and_all(s) });
                }
                parts.extend(att.into_iter().map(|a| F::not(F::Atom(a))));
                ac.push(F::and_all(parts));
            }
        }
        "parity" => {
            for s in 0..n {
                let k = rng.below(3.min(n) + 1);
                let mut f = if rng.bool() { F::Top } else { F::Bot };
                for _ in 0..k {
                    let a = F::Atom(rng.below(n));
                    f = if rng.bool() { F::xor(f, a) } else { F::iff(a, f) };
                }
                let _ = s;
                ac.push(f);
            }
        }
        "false_first" => {
            // some statement must be decided false before another can become true
            let p = rng.perm(n);
            let mut tmp = vec![F::Top; n];
            for (k, s) in p.iter().enumerate() {
                tmp[*s] = match k {
                    0 => F::Bot,
                    1 => F::not(F::Atom(p[0])),
                    _ => {
                        let a = F::Atom(p[k - 1]);
                        let b = F::Atom(p[rng.below(k)]);
                        match rng.below(4) {
                            0 => F::and(a, F::not(b)),
                            1 => F::imp(b, a),
                            2 => F::or(F::not(a), b),
                            _ => F::and(a, b),
                        }
                    }
                };
            }
            ac = tmp;
        }
        "dup" => {
            // shared sub formulas
            let shared = F::random(rng, &all, 3);
            for _ in 0..n {
                let own = F::random(rng, &all, 2);
                ac.push(match rng.below(4) {
                    0 => shared.clone(),
                    1 => F::and(shared.clone(), own),
                    2 => F::or(own, F::not(shared.clone())),
                    _ => F::xor(shared.clone(), own),
                });
            }
        }
        "selfsup" => {
            for s in 0..n {
                ac.push(match rng.below(5) {
                    0 => F::Atom(s),
                    1 => F::not(F::Atom(s)),
                    2 => F::or(F::Atom(s), F::random(rng, &all, 1)),
                    3 => F::and(F::Atom(s), F::random(rng, &all, 1)),
                    _ => F::random(rng, &all, 2),
                });
            }
        }
        "mixed" => {
            for s in 0..n {
                ac.push(match rng.below(6) {
                    0 => F::Top,
                    1 => F::Bot,
                    2 => {
                        let att = subset(rng, 2);
                        F::and_all(att.into_iter().map(|a| F::not(F::Atom(a))).collect())
                    }
                    3 => F::Atom(rng.below(n)),
                    4 => F::Atom(s),
                    _ => F::random(rng, &all, 3),
                });
            }
        }
        "random_deep" => {
            for _ in 0..n {
                ac.push(F::random(rng, &all, 5));
            }
        }
        _ => {
            for _ in 0..n {
                let atoms = {
                    let mut p = rng.perm(n);
                    p.truncate(rng.range(0, n).min(4));
                    p
                };
                let d = rng.range(0, 4);
                ac.push(F::random(rng, &atoms, d));
            }
        }
    }
    GenAdf {
        n,
        labels,
        ac,
        family,
    }
}

/// Large ADF: n statements, every condition mentions at most `max_support` statements.
/// A layered acyclic core (decided completely by the grounded semantics, many propagation
/// rounds) plus `cyclic` statements that stay undecided.
pub fn gen_large(rng: &mut Rng, n: usize, max_support: usize, cyclic: usize, depth: usize) -> GenAdf {
    let labels: Vec<String> = {
        let mut ls = Vec::new();
        let mode = rng.below(3);
        for i in 0..n {
            ls.push(match mode {
                0 => format!("st{}", i),
                1 => format!("{}", i * 7 % 1000 + 1000 * (i / 143)),
                _ => format!("{}{}", ["a", "and", "x", "neg", "c", "or"][i % 6], i),
            });
        }
        ls
    };
    let order = rng.perm(n);
    let mut ac = vec![F::Top; n];
    let core = n - cyclic.min(n);
    for k in 0..n {
        let s = order[k];
        if k < core {
            if k == 0 || rng.chance(1, 12) {
                ac[s] = if rng.bool() { F::Top } else { F::Bot };
            } else {
                // depends on earlier statements only (window keeps the support small)
                let lo = k.saturating_sub(12);
                let mut atoms: Vec<usize> = Vec::new();
                let want = rng.range(1, max_support.min(k - lo).max(1));
                while atoms.len() < want {
                    let a = order[rng.range(lo, k - 1)];
                    if !atoms.contains(&a) {
                        atoms.push(a);
                    }
                }
                // now and then a really big condition (hundreds of connectives, still few distinct statements)
                let d = if rng.chance(1, 6) { depth + rng.range(3, 5) } else { depth };
                let mut f = F::random(rng, &atoms, d);
                // make sure the direct predecessor matters often (long chains)
                if rng.chance(2, 3) && f.atom_list().len() < max_support {
                    let prev = F::Atom(order[k - 1]);
                    f = match rng.below(3) {
                        0 => F::and(prev, F::or(f, F::Top)),
                        1 => F::xor(prev, F::and(f, F::Bot)),
                        _ => F::iff(prev, F::or(f.clone(), F::not(f))),
                    };
                }
                ac[s] = f;
            }
        } else {
            // cyclic part: self reference or mutual dependency within the cyclic block, may also read the core
            let other = order[rng.range(core, n - 1)];
            let mut atoms = vec![s, other];
            if core > 0 {
                atoms.push(order[rng.below(core)]);
            }
            ac[s] = match rng.below(4) {
                0 => F::Atom(s),
                1 => F::not(F::Atom(other)),
                2 => F::and(F::Atom(s), F::random(rng, &atoms, 2)),
                _ => F::or(F::not(F::Atom(other)), F::and(F::Atom(s), F::random(rng, &atoms, 2))),
            };
        }
    }
    debug_assert!(ac.iter().all(|f| f.atom_list().len() <= max_support.max(3)));
    GenAdf {
        n,
        labels,
        ac,
        family: "large",
    }
}

/// Mid-size ADF: a layered core that the grounded semantics decides completely (as in `gen_large`) plus a block
/// of `block` statements with random conditions over the block (and a few core statements), most of which stay
/// undecided. Conditions mention at most 8 statements, so the support-bounded oracle is exact, and the complete /
/// two-valued / stable models are found among the refinements of the grounded interpretation.
pub fn gen_mid(rng: &mut Rng, n: usize, block: usize) -> GenAdf {
    let block = block.min(n);
    let order = rng.perm(n);
    let core = n - block;
    let members: Vec<usize> = order[core..].to_vec();
    let labels: Vec<String> = {
        let mode = rng.below(3);
        (0..n)
            .map(|i| match mode {
                0 => format!("m{}", i),
                1 => format!("{}", 100 + i * 13 % 97 + 97 * (i / 97)),
                _ => format!("{}{}", ["b", "or", "y", "imp", "s", "ac"][i % 6], i),
            })
            .collect()
    };
    let mut ac = vec![F::Top; n];
    for k in 0..core {
        let s = order[k];
        if k == 0 || rng.chance(1, 8) {
            ac[s] = if rng.bool() { F::Top } else { F::Bot };
        } else {
            let lo = k.saturating_sub(10);
            let want = rng.range(1, 5.min(k - lo).max(1));
            let mut atoms: Vec<usize> = Vec::new();
            while atoms.len() < want {
                let a = order[rng.range(lo, k - 1)];
                if !atoms.contains(&a) {
                    atoms.push(a);
                }
            }
            let d = rng.range(1, 4);
            ac[s] = F::random(rng, &atoms, d);
        }
    }
    for (k, s) in members.iter().enumerate() {
        let mut atoms = vec![*s];
        for _ in 0..rng.range(1, 3) {
            let o = members[rng.below(block)];
            if !atoms.contains(&o) {
                atoms.push(o);
            }
        }
        for _ in 0..rng.range(0, 2) {
            if core > 0 {
                let c = order[rng.below(core)];
                if !atoms.contains(&c) {
                    atoms.push(c);
                }
            }
        }
        let other = if block >= 2 { members[(k + 1 + rng.below(block - 1)) % block] } else { *s };
        let d = rng.range(1, 3);
        let r = F::random(rng, &atoms, d);
        ac[*s] = match rng.below(8) {
            0 => F::Atom(*s),
            1 => F::not(F::Atom(other)),
            2 => F::and(F::Atom(*s), r),
            3 => F::or(F::not(F::Atom(other)), F::and(F::Atom(*s), r)),
            4 => F::Atom(other),
            5 => F::xor(F::Atom(other), r),
            _ => r,
        };
    }
    GenAdf { n, labels, ac, family: "mid" }
}

#[cfg(test)]
mod test {
    use super::*;
    use crate::grammar;

    #[test]
    fn rendered_text_is_in_the_language() {
        let mut rng = Rng::new(3);
        for i in 0..300 {
            let n = rng.range(1, 6);
            let g = gen_adf(&mut rng, n, LabelMode::All);
            let r = g.render(&mut rng, i % 2 == 0);
            let parsed = grammar::recognise(&r.text).unwrap_or_else(|e| panic!("{}: {:?}", e, r.text));
            assert_eq!(parsed.statements.len(), n);
        }
    }

    #[test]
    fn large_support_bound() {
        let mut rng = Rng::new(5);
        for _ in 0..20 {
            let g = gen_large(&mut rng, 40, 8, 4, 4);
            for f in &g.ac {
                assert!(f.atom_list().len() <= 10);
            }
        }
    }
}

/// Tall frameworks: 64 to 90 statements; one or two of them have a conjunction or disjunction chain over (nearly)
/// all others as condition, the rest are facts, self-supporters, copies or negations of one other statement.
/// Every condition is read-once, so the grounded interpretation is the least fixpoint of strong Kleene
/// evaluation (`tall_grounded`), although no condition's support can be enumerated.
pub fn gen_tall(rng: &mut Rng) -> GenAdf {
    let n = rng.range(64, 90);
    let mut ac: Vec<F> = (0..n)
        .map(|i| match rng.below(6) {
            0 | 1 => F::Top,
            2 => F::Bot,
            3 => F::Atom(i),
            4 => F::not(F::Atom(rng.below(n))),
            _ => F::Atom(rng.below(n)),
        })
        .collect();
    for _ in 0..rng.range(1, 2) {
        let s = rng.below(n);
        let conj = rng.bool();
        let mut f = if conj { F::Top } else { F::Bot };
        for a in (0..n).rev() {
            if a != s && !rng.chance(1, 12) {
                let lit = if rng.chance(1, 8) { F::not(F::Atom(a)) } else { F::Atom(a) };
                f = if conj { F::and(lit, f) } else { F::or(lit, f) };
            }
        }
        ac[s] = f;
    }
    debug_assert!(ac.iter().all(|f| f.read_once()));
    GenAdf { n, labels: (0..n).map(|i| format!("t{}", i)).collect(), ac, family: "tall" }
}

/// grounded interpretation of a framework whose conditions are all read-once
pub fn tall_grounded(g: &GenAdf) -> Vec<u8> {
    assert!(g.ac.iter().all(|f| f.read_once()));
    let mut v = vec![2u8; g.n];
    loop {
        let next: Vec<u8> = g.ac.iter().map(|f| f.kleene(&|i| v[i])).collect();
        // (monotone from the all-undecided interpretation: decided values never change)
        if next == v {
            return v;
        }
        v = next;
    }
}

#[cfg(test)]
mod tall_tests {
    use super::*;
    use crate::sem::Sem;

    /// strong Kleene least fixpoint = grounded interpretation by enumeration, on small read-once frameworks
    #[test]
    fn kleene_fixpoint_is_grounded_on_read_once_frameworks() {
        let mut rng = Rng::new(77);
        let mut checked = 0;
        for _ in 0..3000 {
            let n = rng.range(1, 7);
            let ac: Vec<F> = (0..n)
                .map(|_| {
                    // a random read-once formula: random tree over a random subset of distinct atoms
                    let mut atoms = rng.perm(n);
                    atoms.truncate(rng.range(0, n));
                    let mut parts: Vec<F> = atoms.into_iter().map(|a| if rng.bool() { F::Atom(a) } else { F::not(F::Atom(a)) }).collect();
                    if parts.is_empty() {
                        return if rng.bool() { F::Top } else { F::Bot };
                    }
                    while parts.len() > 1 {
                        let b = parts.pop().unwrap();
                        let a = parts.pop().unwrap();
                        let f = match rng.below(5) {
                            0 => F::and(a, b),
                            1 => F::or(a, b),
                            2 => F::imp(a, b),
                            3 => F::xor(a, b),
                            _ => F::iff(a, b),
                        };
                        let k = rng.below(parts.len() + 1);
                        parts.insert(k, f);
                    }
                    parts.pop().unwrap()
                })
                .collect();
            let g = GenAdf { n, labels: (0..n).map(|i| format!("x{}", i)).collect(), ac, family: "t" };
            assert!(g.ac.iter().all(|f| f.read_once()));
            let want = Sem::new(&g.ac).grounded();
            assert_eq!(tall_grounded(&g), want, "{:?}", g.ac);
            checked += 1;
        }
        assert_eq!(checked, 3000);
    }

    #[test]
    fn tall_frameworks_are_read_once_and_tall() {
        let mut rng = Rng::new(5);
        for _ in 0..50 {
            let g = gen_tall(&mut rng);
            assert!(g.n >= 64 && g.ac.iter().all(|f| f.read_once()));
            assert!(g.ac.iter().any(|f| f.atom_list().len() >= 50));
            let gr = tall_grounded(&g);
            assert_eq!(gr.len(), g.n);
        }
    }
}
