//! Independent recursive-descent recogniser for the documented input format.
//!
//! ```text
//! file    := fact+ EOF
//! fact    := ( "s(" label ")" | "ac(" label ws "," ws formula ")" ) "." ws
//! formula := "c(v)" | "c(f)" | binop "(" formula ws "," ws formula ")" | "neg(" formula ")" | label
//! binop   := "and" | "or" | "imp" | "xor" | "iff"
//! label   := '"' [^"]* '"' | [A-Za-z0-9]+
//! ws      := (blank | tab | newline | carriage return)*
//! ```
//! Alternatives of `formula` are ordered (first match wins, with backtracking), so a label
//! that merely looks like a keyword is an atom.

#[derive(Clone, Debug, PartialEq, Eq)]
pub enum PF {
    Top,
    Bot,
    Atom(String),
    Not(Box<PF>),
    And(Box<PF>, Box<PF>),
    Or(Box<PF>, Box<PF>),
    Imp(Box<PF>, Box<PF>),
    Xor(Box<PF>, Box<PF>),
    Iff(Box<PF>, Box<PF>),
}

#[derive(Clone, Debug, Default)]
pub struct Parsed {
    /// labels in the order of their first declaration
    pub statements: Vec<String>,
    /// (statement label, condition) in file order
    pub acs: Vec<(String, PF)>,
}

struct P<'a> {
    s: &'a [u8],
    depth: usize,
}

type R<T> = Result<(T, usize), String>;

impl<'a> P<'a> {
    fn lit(&self, pos: usize, lit: &str) -> Option<usize> {
        let b = lit.as_bytes();
        if self.s.len() >= pos + b.len() && &self.s[pos..pos + b.len()] == b {
            Some(pos + b.len())
        } else {
            None
        }
    }

    fn ws(&self, mut pos: usize) -> usize {
        while pos < self.s.len() && matches!(self.s[pos], b' ' | b'\t' | b'\n' | b'\r') {
            pos += 1;
        }
        pos
    }

    fn label(&self, pos: usize) -> R<String> {
        if pos < self.s.len() && self.s[pos] == b'"' {
            let mut p = pos + 1;
            while p < self.s.len() && self.s[p] != b'"' {
                p += 1;
            }
            if p >= self.s.len() {
                return Err(format!("unterminated quote at {}", pos));
            }
            let content = std::str::from_utf8(&self.s[pos + 1..p]).map_err(|e| e.to_string())?;
            Ok((content.to_string(), p + 1))
        } else {
            let mut p = pos;
            while p < self.s.len() && self.s[p].is_ascii_alphanumeric() {
                p += 1;
            }
            if p == pos {
                return Err(format!("label expected at {}", pos));
            }
            Ok((String::from_utf8(self.s[pos..p].to_vec()).unwrap(), p))
        }
    }

    fn formula(&mut self, pos: usize) -> R<PF> {
        self.depth += 1;
        if self.depth > 100_000 {
            return Err("too deep".into());
        }
        let r = self.formula_inner(pos);
        self.depth -= 1;
        r
    }

    fn formula_inner(&mut self, pos: usize) -> R<PF> {
        if let Some(p) = self.lit(pos, "c(v)") {
            return Ok((PF::Top, p));
        }
        if let Some(p) = self.lit(pos, "c(f)") {
            return Ok((PF::Bot, p));
        }
        for (name, kind) in [("and", 0), ("or", 1), ("imp", 2), ("xor", 3), ("iff", 4)] {
            if let Some(p) = self.lit(pos, name) {
                if let Some(p) = self.lit(p, "(") {
                    if let Ok((a, p)) = self.formula(p) {
                        let p = self.ws(p);
                        if let Some(p) = self.lit(p, ",") {
                            let p = self.ws(p);
                            if let Ok((b, p)) = self.formula(p) {
                                if let Some(p) = self.lit(p, ")") {
                                    let (a, b) = (Box::new(a), Box::new(b));
                                    let f = match kind {
                                        0 => PF::And(a, b),
                                        1 => PF::Or(a, b),
                                        2 => PF::Imp(a, b),
                                        3 => PF::Xor(a, b),
                                        _ => PF::Iff(a, b),
                                    };
                                    return Ok((f, p));
                                }
                            }
                        }
                    }
                }
            }
        }
        if let Some(p) = self.lit(pos, "neg(") {
            if let Ok((a, p)) = self.formula(p) {
                if let Some(p) = self.lit(p, ")") {
                    return Ok((PF::Not(Box::new(a)), p));
                }
            }
        }
        let (l, p) = self.label(pos)?;
        Ok((PF::Atom(l), p))
    }

    fn fact(&mut self, pos: usize, out: &mut Parsed) -> Result<usize, String> {
        if let Some(p) = self.lit(pos, "s(") {
            if let Ok((l, p)) = self.label(p) {
                if let Some(p) = self.lit(p, ")") {
                    if let Some(p) = self.lit(p, ".") {
                        if !out.statements.contains(&l) {
                            out.statements.push(l);
                        }
                        return Ok(self.ws(p));
                    }
                }
            }
        }
        if let Some(p) = self.lit(pos, "ac(") {
            let (l, p) = self.label(p)?;
            let p = self.ws(p);
            let p = self.lit(p, ",").ok_or(format!("',' expected at {}", p))?;
            let p = self.ws(p);
            let (f, p) = self.formula(p)?;
            let p = self.lit(p, ")").ok_or(format!("')' expected at {}", p))?;
            let p = self.lit(p, ".").ok_or(format!("'.' expected at {}", p))?;
            out.acs.push((l, f));
            return Ok(self.ws(p));
        }
        Err(format!("fact expected at {}", pos))
    }
}

/// recognise a complete input; Err if the text is not in the documented language
pub fn recognise(text: &str) -> Result<Parsed, String> {
    let mut p = P {
        s: text.as_bytes(),
        depth: 0,
    };
    let mut out = Parsed::default();
    let mut pos = 0;
    let mut facts = 0;
    while pos < text.len() {
        pos = p.fact(pos, &mut out)?;
        facts += 1;
    }
    if facts == 0 {
        return Err("no fact".into());
    }
    Ok(out)
}

/// brackets outside quoted labels are balanced and never go negative
/// (a necessary condition for membership in the language)
pub fn brackets_balanced_outside_quotes(text: &str) -> bool {
    let mut depth: i64 = 0;
    let mut in_quote = false;
    for c in text.chars() {
        if c == '"' {
            in_quote = !in_quote;
        } else if !in_quote {
            if c == '(' {
                depth += 1;
            } else if c == ')' {
                depth -= 1;
                if depth < 0 {
                    return false;
                }
            }
        }
    }
    depth == 0 && !in_quote
}

#[cfg(test)]
mod test {
    use super::*;

    #[test]
    fn accepts_and_rejects() {
        let ok = [
            "s(a).",
            "s(a). s(b).\nac(a,c(v)).ac(b , neg(a)).",
            "s(and).ac(and,and(and,or)).s(or).",
            "s(\"a b\").ac(\"a b\",xor(\"a b\",c(f))).",
            "ac(a,b).s(a).s(b).ac(b,iff(a,imp(b,a))).",
            "s(c).ac(c,c).",
            "s(cv).ac(cv,neg(cv)).",
        ];
        for t in ok {
            assert!(recognise(t).is_ok(), "{}", t);
        }
        let bad = [
            "",
            " s(a).",
            "s(a)",
            "s(a).x",
            "s(a,b).",
            "ac(a).",
            "ac(a,and(b)).",
            "ac(a,and(b,c,d)).",
            "ac(a,neg(b,c)).",
            "ac(a,c(v,f)).",
            "s(a.",
            "s(a)).",
            "ac(a,neg(b).",
            "s(a_b).",
            "s( a).",
        ];
        for t in bad {
            assert!(recognise(t).is_err(), "{}", t);
        }
        let p = recognise("s(b).s(a).s(b).ac(a,and(b,c(v))).").unwrap();
        assert_eq!(p.statements, vec!["b".to_string(), "a".to_string()]);
        assert_eq!(
            p.acs[0].1,
            PF::And(Box::new(PF::Atom("b".into())), Box::new(PF::Top))
        );
    }
}
