//! Reference models ("oracles") for the adf-obdd monitors.
//!
//! Nothing in this crate depends on the code under test: formulas are an own AST,
//! Boolean functions are truth tables, ADF semantics are computed by definition
//! (enumeration), text is produced by an own renderer and checked by an own recogniser.

pub mod formula;
pub mod gen;
pub mod grammar;
pub mod rng;
pub mod sem;
pub mod tt;

pub use formula::F;
pub use rng::Rng;
pub use tt::TT;

/// three valued truth value
pub type Val = u8;
/// false
pub const VF: Val = 0;
/// true
pub const VT: Val = 1;
/// undecided
pub const VU: Val = 2;

/// renders an interpretation as a string like `TFu`
pub fn show_vals(v: &[Val]) -> String {
    v.iter()
        .map(|x| match *x {
            VF => 'F',
            VT => 'T',
            _ => 'u',
        })
        .collect()
}

/// FNV-1a 64 bit hash, used for distinct-case counting
pub fn fnv(data: &[u8]) -> u64 {
    let mut h: u64 = 0xcbf29ce484222325;
    for b in data {
        h ^= *b as u64;
        h = h.wrapping_mul(0x100000001b3);
    }
    h
}
