//! ADF semantics by definition (enumeration), independent of any decision diagram.

use crate::formula::F;
use crate::tt::TT;
use crate::{Val, VF, VT, VU};

/// ADF over n statements with one truth table per statement (n <= 16)
#[derive(Clone, Debug)]
pub struct Sem {
    pub n: usize,
    pub tt: Vec<TT>,
}

impl Sem {
    pub fn new(ac: &[F]) -> Sem {
        let n = ac.len();
        assert!(n <= 16);
        Sem {
            n,
            tt: ac.iter().map(|f| f.tt(n)).collect(),
        }
    }

    pub fn from_tts(tt: Vec<TT>) -> Sem {
        Sem { n: tt.len(), tt }
    }

    /// value of statement s under the three valued interpretation v:
    /// T if its condition is true under all completions, F if false under all, u otherwise
    pub fn eval3(&self, s: usize, v: &[Val]) -> Val {
        Self::eval3_tt(&self.tt[s], v)
    }

    pub fn eval3_tt(tt: &TT, v: &[Val]) -> Val {
        let mut fixed = 0usize;
        let mut free = 0usize;
        for (i, x) in v.iter().enumerate() {
            match *x {
                VT => fixed |= 1 << i,
                VF => {}
                _ => free |= 1 << i,
            }
        }
        let mut seen_t = false;
        let mut seen_f = false;
        let mut sub = 0usize;
        loop {
            if tt.get(fixed | sub) {
                seen_t = true;
            } else {
                seen_f = true;
            }
            if seen_t && seen_f {
                return VU;
            }
            // next subset of free
            sub = sub.wrapping_sub(free) & free;
            if sub == 0 {
                break;
            }
        }
        if seen_t {
            VT
        } else {
            VF
        }
    }

    /// the three valued consequence operator
    pub fn gamma(&self, v: &[Val]) -> Vec<Val> {
        (0..self.n).map(|s| self.eval3(s, v)).collect()
    }

    /// least fixpoint of gamma; also returns the number of propagation rounds that changed something
    pub fn grounded_rounds(&self) -> (Vec<Val>, usize) {
        let mut v = vec![VU; self.n];
        let mut rounds = 0;
        loop {
            let w = self.gamma(&v);
            if w == v {
                return (v, rounds);
            }
            rounds += 1;
            v = w;
            assert!(rounds <= self.n + 1, "gamma is monotone from the bottom element");
        }
    }

    pub fn grounded(&self) -> Vec<Val> {
        self.grounded_rounds().0
    }

    /// all three valued fixpoints of gamma, by enumeration of 3^n interpretations
    pub fn complete(&self) -> Vec<Vec<Val>> {
        let mut res = Vec::new();
        let mut v = vec![VF; self.n];
        loop {
            if self.gamma(&v) == v {
                res.push(v.clone());
            }
            // odometer over {0,1,2}
            let mut i = 0;
            loop {
                if i == self.n {
                    return res;
                }
                if v[i] < 2 {
                    v[i] += 1;
                    break;
                }
                v[i] = 0;
                i += 1;
            }
        }
    }

    /// all two valued models
    pub fn two_valued(&self) -> Vec<Vec<Val>> {
        let mut res = Vec::new();
        for a in 0..(1usize << self.n) {
            if (0..self.n).all(|s| self.tt[s].get(a) == ((a >> s) & 1 == 1)) {
                res.push((0..self.n).map(|s| ((a >> s) & 1) as Val).collect());
            }
        }
        res
    }

    /// is the two valued model v stable: grounded interpretation of the reduct derives all true statements
    pub fn is_stable(&self, v: &[Val]) -> bool {
        // reduct: statements false in v are replaced by falsum in every condition and dropped
        let mut falsemask = 0usize;
        for (i, x) in v.iter().enumerate() {
            if *x == VF {
                falsemask |= 1 << i;
            }
        }
        let red: Vec<TT> = self
            .tt
            .iter()
            .map(|t| TT::from_fn(self.n, |a| t.get(a & !falsemask)))
            .collect();
        // least fixpoint over the true statements only (false statements are fixed to F)
        let mut w: Vec<Val> = v.iter().map(|x| if *x == VF { VF } else { VU }).collect();
        loop {
            let mut next = w.clone();
            for s in 0..self.n {
                if v[s] != VF {
                    next[s] = Self::eval3_tt(&red[s], &w);
                }
            }
            if next == w {
                break;
            }
            w = next;
        }
        (0..self.n).all(|s| v[s] == VF || w[s] == VT)
    }

    pub fn stable(&self) -> Vec<Vec<Val>> {
        self.two_valued()
            .into_iter()
            .filter(|v| self.is_stable(v))
            .collect()
    }
}

/// Support bounded operator for large ADFs: every condition mentions few statements,
/// so gamma is computed exactly per statement by enumerating completions of its own support.
#[derive(Clone, Debug)]
pub struct BigSem {
    pub n: usize,
    pub ac: Vec<F>,
    pub support: Vec<Vec<usize>>,
}

impl BigSem {
    pub fn new(ac: &[F]) -> BigSem {
        BigSem {
            n: ac.len(),
            ac: ac.to_vec(),
            support: ac.iter().map(|f| f.atom_list()).collect(),
        }
    }

    pub fn max_support(&self) -> usize {
        self.support.iter().map(|s| s.len()).max().unwrap_or(0)
    }

    pub fn eval3(&self, s: usize, v: &[Val]) -> Val {
        let sup = &self.support[s];
        let free: Vec<usize> = sup.iter().copied().filter(|i| v[*i] == VU).collect();
        assert!(free.len() <= 22, "support too large for the bounded operator");
        let mut seen_t = false;
        let mut seen_f = false;
        for sub in 0..(1usize << free.len()) {
            let val = self.ac[s].eval(&|i| {
                if v[i] == VU {
                    let pos = free.iter().position(|x| *x == i).unwrap();
                    (sub >> pos) & 1 == 1
                } else {
                    v[i] == VT
                }
            });
            if val {
                seen_t = true;
            } else {
                seen_f = true;
            }
            if seen_t && seen_f {
                return VU;
            }
        }
        if seen_t {
            VT
        } else {
            VF
        }
    }

    pub fn gamma(&self, v: &[Val]) -> Vec<Val> {
        (0..self.n).map(|s| self.eval3(s, v)).collect()
    }

    pub fn grounded_rounds(&self) -> (Vec<Val>, usize) {
        let mut v = vec![VU; self.n];
        let mut rounds = 0;
        loop {
            let w = self.gamma(&v);
            if w == v {
                return (v, rounds);
            }
            rounds += 1;
            v = w;
        }
    }

    /// positions left undecided by the grounded interpretation
    pub fn undecided_after_grounding(&self) -> (Vec<Val>, Vec<usize>) {
        let (g, _) = self.grounded_rounds();
        let und = (0..self.n).filter(|i| g[*i] == VU).collect();
        (g, und)
    }

    fn is_fixpoint(&self, v: &[Val]) -> bool {
        (0..self.n).all(|s| self.eval3(s, v) == v[s])
    }

    /// all complete models. Every fixpoint of gamma refines the least one, so the candidates are the 3^k
    /// refinements of the grounded interpretation (k statements left undecided); exact for any n when k is small.
    pub fn complete(&self, max_undecided: usize) -> Option<Vec<Vec<Val>>> {
        let (g, und) = self.undecided_after_grounding();
        if und.len() > max_undecided {
            return None;
        }
        let mut res = Vec::new();
        let mut digits = vec![0u8; und.len()];
        loop {
            let mut v = g.clone();
            for (d, i) in digits.iter().zip(&und) {
                v[*i] = match *d {
                    0 => VU,
                    1 => VT,
                    _ => VF,
                };
            }
            if self.is_fixpoint(&v) {
                res.push(v);
            }
            let mut i = 0;
            loop {
                if i == digits.len() {
                    return Some(res);
                }
                if digits[i] < 2 {
                    digits[i] += 1;
                    break;
                }
                digits[i] = 0;
                i += 1;
            }
        }
    }

    /// all two-valued models (total fixpoints): among the 2^k completions of the grounded interpretation
    pub fn two_valued(&self, max_undecided: usize) -> Option<Vec<Vec<Val>>> {
        let (g, und) = self.undecided_after_grounding();
        if und.len() > max_undecided {
            return None;
        }
        let mut res = Vec::new();
        for bits in 0..(1usize << und.len()) {
            let mut v = g.clone();
            for (pos, i) in und.iter().enumerate() {
                v[*i] = if (bits >> pos) & 1 == 1 { VT } else { VF };
            }
            let asg = |i: usize| v[i] == VT;
            if (0..self.n).all(|s| self.eval2(s, &asg) == (v[s] == VT)) {
                res.push(v);
            }
        }
        Some(res)
    }

    /// stability of a two-valued model by definition: the statements false in v are replaced by falsum (fixed to
    /// F); the least fixpoint of the operator on the remaining statements must make every true statement true
    pub fn is_stable(&self, v: &[Val]) -> bool {
        let mut w: Vec<Val> = v.iter().map(|x| if *x == VF { VF } else { VU }).collect();
        loop {
            let mut next = w.clone();
            for s in 0..self.n {
                if v[s] != VF {
                    next[s] = self.eval3(s, &w);
                }
            }
            if next == w {
                break;
            }
            w = next;
        }
        (0..self.n).all(|s| v[s] == VF || w[s] == VT)
    }

    pub fn stable(&self, max_undecided: usize) -> Option<Vec<Vec<Val>>> {
        Some(self.two_valued(max_undecided)?.into_iter().filter(|v| self.is_stable(v)).collect())
    }

    /// evaluate condition s under a total assignment
    pub fn eval2(&self, s: usize, asg: &dyn Fn(usize) -> bool) -> bool {
        self.ac[s].eval(asg)
    }
}

#[cfg(test)]
mod test {
    use super::*;
    use crate::show_vals;

    #[test]
    fn doc_example() {
        // s(a).s(b).s(c).s(d).ac(a,c(v)).ac(b,or(a,b)).ac(c,neg(b)).ac(d,d).
        let ac = vec![
            F::Top,
            F::or(F::Atom(0), F::Atom(1)),
            F::not(F::Atom(1)),
            F::Atom(3),
        ];
        let s = Sem::new(&ac);
        assert_eq!(show_vals(&s.grounded()), "TTFu");
        let c: Vec<String> = s.complete().iter().map(|v| show_vals(v)).collect();
        assert_eq!(c.len(), 3);
        assert!(c.contains(&"TTFu".to_string()));
        assert!(c.contains(&"TTFT".to_string()));
        assert!(c.contains(&"TTFF".to_string()));
        let st: Vec<String> = s.stable().iter().map(|v| show_vals(v)).collect();
        assert_eq!(st, vec!["TTFF".to_string()]);
        let b = BigSem::new(&ac);
        assert_eq!(show_vals(&b.grounded_rounds().0), "TTFu");
    }

    /// the refinement-bounded oracle agrees with plain enumeration on small frameworks
    #[test]
    fn bigsem_models_agree_with_enumeration() {
        use crate::gen::{gen_adf, gen_mid, LabelMode};
        use crate::Rng;
        let mut rng = Rng::new(11);
        let norm = |mut v: Vec<Vec<Val>>| {
            v.sort();
            v
        };
        let mut with_models = 0;
        for i in 0..4000 {
            let g = if i % 4 == 0 { gen_mid(&mut rng, 6 + i % 5, 3) } else { let n = rng.range(1, 6); gen_adf(&mut rng, n, LabelMode::Plain) };
            let s = Sem::new(&g.ac);
            let b = BigSem::new(&g.ac);
            assert_eq!(b.grounded_rounds().0, s.grounded());
            assert_eq!(norm(b.complete(16).unwrap()), norm(s.complete()), "{:?}", g.ac);
            assert_eq!(norm(b.two_valued(16).unwrap()), norm(s.two_valued()), "{:?}", g.ac);
            assert_eq!(norm(b.stable(16).unwrap()), norm(s.stable()), "{:?}", g.ac);
            if s.stable().len() >= 1 && s.two_valued().len() > s.stable().len() {
                with_models += 1;
            }
        }
        assert!(with_models > 100, "{}", with_models);
    }

    #[test]
    fn self_support_not_stable() {
        // ac(a,a): two valued models {a=T},{a=F}; only a=F is stable
        let s = Sem::new(&[F::Atom(0)]);
        assert_eq!(s.two_valued().len(), 2);
        let st = s.stable();
        assert_eq!(st, vec![vec![VF]]);
    }
}
