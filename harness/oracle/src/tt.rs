//! Truth tables over n variables as bit sets (assignment index a: variable i has value bit i of a).

#[derive(Clone, Debug, PartialEq, Eq, Hash)]
pub struct TT {
    pub n: usize,
    pub bits: Vec<u64>,
}

impl TT {
    pub fn size(n: usize) -> usize {
        1usize << n
    }

    fn words(n: usize) -> usize {
        ((1usize << n) + 63) / 64
    }

    pub fn constant(n: usize, val: bool) -> TT {
        let mut t = TT {
            n,
            bits: vec![if val { u64::MAX } else { 0 }; Self::words(n)],
        };
        t.trim();
        t
    }

    fn trim(&mut self) {
        let sz = Self::size(self.n);
        if sz < 64 {
            self.bits[0] &= (1u64 << sz) - 1;
        }
    }

    pub fn var(n: usize, i: usize) -> TT {
        let mut t = TT::constant(n, false);
        for a in 0..Self::size(n) {
            if (a >> i) & 1 == 1 {
                t.set(a, true);
            }
        }
        t
    }

    pub fn from_fn(n: usize, f: impl Fn(usize) -> bool) -> TT {
        let mut t = TT::constant(n, false);
        for a in 0..Self::size(n) {
            if f(a) {
                t.set(a, true);
            }
        }
        t
    }

    #[inline]
    pub fn get(&self, a: usize) -> bool {
        (self.bits[a >> 6] >> (a & 63)) & 1 == 1
    }

    #[inline]
    pub fn set(&mut self, a: usize, v: bool) {
        if v {
            self.bits[a >> 6] |= 1u64 << (a & 63);
        } else {
            self.bits[a >> 6] &= !(1u64 << (a & 63));
        }
    }

    pub fn not(&self) -> TT {
        let mut t = TT {
            n: self.n,
            bits: self.bits.iter().map(|w| !w).collect(),
        };
        t.trim();
        t
    }

    pub fn zip(&self, o: &TT, f: impl Fn(u64, u64) -> u64) -> TT {
        assert_eq!(self.n, o.n);
        let mut t = TT {
            n: self.n,
            bits: self
                .bits
                .iter()
                .zip(o.bits.iter())
                .map(|(a, b)| f(*a, *b))
                .collect(),
        };
        t.trim();
        t
    }

    pub fn and(&self, o: &TT) -> TT {
        self.zip(o, |a, b| a & b)
    }
    pub fn or(&self, o: &TT) -> TT {
        self.zip(o, |a, b| a | b)
    }
    pub fn xor(&self, o: &TT) -> TT {
        self.zip(o, |a, b| a ^ b)
    }
    pub fn iff(&self, o: &TT) -> TT {
        self.zip(o, |a, b| !(a ^ b))
    }
    pub fn imp(&self, o: &TT) -> TT {
        self.zip(o, |a, b| !a | b)
    }

    /// cofactor: the function with variable i fixed to val (result does not depend on i)
    pub fn cofactor(&self, i: usize, val: bool) -> TT {
        TT::from_fn(self.n, |a| {
            let b = if val { a | (1 << i) } else { a & !(1 << i) };
            self.get(b)
        })
    }

    pub fn count_ones(&self) -> u64 {
        self.bits.iter().map(|w| w.count_ones() as u64).sum()
    }

    pub fn is_true(&self) -> bool {
        self.count_ones() == Self::size(self.n) as u64
    }

    pub fn is_false(&self) -> bool {
        self.count_ones() == 0
    }

    pub fn depends_on(&self, i: usize) -> bool {
        self.cofactor(i, false) != self.cofactor(i, true)
    }

    pub fn support(&self) -> Vec<usize> {
        (0..self.n).filter(|i| self.depends_on(*i)).collect()
    }

    pub fn hash64(&self) -> u64 {
        let mut h: u64 = 0xcbf29ce484222325 ^ (self.n as u64);
        for w in &self.bits {
            for b in w.to_le_bytes() {
                h ^= b as u64;
                h = h.wrapping_mul(0x100000001b3);
            }
        }
        h
    }

    pub fn hex(&self) -> String {
        self.bits
            .iter()
            .rev()
            .map(|w| format!("{:016x}", w))
            .collect::<Vec<_>>()
            .join("")
    }
}

#[cfg(test)]
mod test {
    use super::*;
    #[test]
    fn basics() {
        let a = TT::var(3, 0);
        let b = TT::var(3, 1);
        assert_eq!(a.and(&b).count_ones(), 2);
        assert_eq!(a.or(&b).count_ones(), 6);
        assert!(a.or(&a.not()).is_true());
        assert_eq!(a.and(&b).cofactor(0, true), b);
        assert!(a.and(&b).cofactor(0, false).is_false());
        assert_eq!(a.xor(&b).support(), vec![0, 1]);
        let c = TT::var(7, 6);
        assert_eq!(c.count_ones(), 64);
        assert_eq!(c.support(), vec![6]);
        assert!(c.imp(&c).is_true());
        assert_eq!(c.iff(&c.not()).count_ones(), 0);
    }
}
