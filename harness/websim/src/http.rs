//! Minimal HTTP/1.1 client with a per-session cookie jar (one connection per request).

use std::collections::BTreeMap;
use std::io::{Read, Write};
use std::net::TcpStream;
use std::time::Duration;

#[derive(Clone, Debug)]
pub struct Response {
    pub status: u16,
    pub headers: Vec<(String, String)>,
    pub body: Vec<u8>,
}

impl Response {
    pub fn text(&self) -> String {
        String::from_utf8_lossy(&self.body).to_string()
    }
    pub fn json(&self) -> Option<serde_json::Value> {
        serde_json::from_slice(&self.body).ok()
    }
}

#[derive(Clone, Debug, Default)]
pub struct Session {
    pub port: u16,
    pub cookies: BTreeMap<String, String>,
}

/// requests sent again because actix-http's slow-request timer refused them before dispatch (see `Session::request`)
pub static TRANSPORT_408_RESENDS: std::sync::atomic::AtomicU64 = std::sync::atomic::AtomicU64::new(0);

thread_local! {
    /// what this thread's sessions sent and received, in order (runs of identical lines are counted): attached to
    /// a violation so that the witness history can be read, not only its last response
    pub static TRAIL: std::cell::RefCell<Vec<(String, u32)>> = const { std::cell::RefCell::new(Vec::new()) };
}

pub fn trail_push(line: String) {
    TRAIL.with(|t| {
        let mut t = t.borrow_mut();
        match t.last_mut() {
            Some((l, n)) if *l == line => *n += 1,
            _ => t.push((line, 1)),
        }
    });
}

pub fn trail_take() -> Vec<String> {
    TRAIL.with(|t| t.borrow_mut().drain(..).map(|(l, n)| if n > 1 { format!("{} (x{})", l, n) } else { l }).collect())
}

pub enum Body {
    None,
    Json(serde_json::Value),
    /// multipart form fields
    Form(Vec<(String, String)>),
}

impl Session {
    pub fn new(port: u16) -> Session {
        Session {
            port,
            cookies: BTreeMap::new(),
        }
    }

    /// Send a complete, valid request and then reset the connection (RST, not FIN) `after_ms` later without
    /// reading the reply: a client that crashes or whose network path breaks while the service still works on
    /// its request. Nothing is learnt about the outcome; the request may or may not take effect.
    pub fn request_and_reset(&mut self, method: &str, path: &str, body: Body, after_ms: u64) -> Result<(), String> {
        let mut s = TcpStream::connect(("127.0.0.1", self.port)).map_err(|e| format!("connect: {}", e))?;
        s.set_nodelay(true).ok();
        let bytes = self.build(method, path, &body);
        s.write_all(&bytes).map_err(|e| format!("write: {}", e))?;
        std::thread::sleep(Duration::from_millis(after_ms));
        // SO_LINGER with a zero timeout turns close() into a reset
        use std::os::fd::AsRawFd;
        let lg = libc::linger { l_onoff: 1, l_linger: 0 };
        let rc = unsafe { libc::setsockopt(s.as_raw_fd(), libc::SOL_SOCKET, libc::SO_LINGER, &lg as *const _ as *const libc::c_void, std::mem::size_of::<libc::linger>() as libc::socklen_t) };
        if rc != 0 {
            return Err("setsockopt(SO_LINGER) failed".into());
        }
        drop(s);
        trail_push(format!("{} {} sent, connection reset after {} ms", method, path, after_ms));
        Ok(())
    }

    /// One request, one reply. A reply `408` with an empty body is not an answer of the service: actix-http sends
    /// it when its slow-request timer (5 s from accepting the connection) fires before it has read the request
    /// head, i.e. before any handler is chosen, and closes the connection (h1/dispatcher.rs, poll_head_timer;
    /// nothing in /repo/server produces that status). It happens when the machine is so loaded that the server's
    /// worker does not get to read a request that was sent at once. The request was not delivered, so it is sent
    /// again (counted in `TRANSPORT_408_RESENDS`); if it is still refused after several attempts the caller gets a
    /// transport error, never a verdict.
    pub fn request(&mut self, method: &str, path: &str, body: Body) -> Result<Response, String> {
        let mut attempt = 0;
        loop {
            let r = self.request_once(method, path, &body)?;
            {
                let what = match &body {
                    Body::Json(v) => v.to_string(),
                    _ => String::new(),
                };
                let mut answer: String = String::from_utf8_lossy(&r.body).chars().take(40).collect();
                if let Ok(v) = serde_json::from_slice::<serde_json::Value>(&r.body) {
                    if v.get("running_tasks").is_some() {
                        let stored: Vec<String> = v["acs_per_strategy"].as_object().map(|o| o.iter().filter(|(_, e)| e["type"] != "None").map(|(k, e)| format!("{}:{}", k, e["type"].as_str().unwrap_or("?"))).collect()).unwrap_or_default();
                        answer = format!("running {} stored {:?}", v["running_tasks"], stored);
                    }
                }
                trail_push(format!("{} {} {} -> {} {}", method, path, what, r.status, answer));
            }
            if r.status == 408 && r.body.is_empty() {
                attempt += 1;
                TRANSPORT_408_RESENDS.fetch_add(1, std::sync::atomic::Ordering::Relaxed);
                if attempt >= 6 {
                    return Err(format!("{} {}: the server's slow-request timer answered 408 {} times (machine overloaded)", method, path, attempt));
                }
                std::thread::sleep(Duration::from_millis(300 * attempt));
                continue;
            }
            return Ok(r);
        }
    }

    fn request_once(&mut self, method: &str, path: &str, body: &Body) -> Result<Response, String> {
        let mut s = TcpStream::connect(("127.0.0.1", self.port)).map_err(|e| format!("connect: {}", e))?;
        s.set_read_timeout(Some(Duration::from_secs(120))).ok();
        s.set_nodelay(true).ok();
        let bytes = self.build(method, path, body);
        s.write_all(&bytes).map_err(|e| format!("write: {}", e))?;
        let mut raw = Vec::new();
        s.read_to_end(&mut raw).map_err(|e| format!("read: {}", e))?;
        let resp = parse_response(&raw)?;
        for (k, v) in &resp.headers {
            if k.eq_ignore_ascii_case("set-cookie") {
                let first = v.split(';').next().unwrap_or("");
                if let Some((name, val)) = first.split_once('=') {
                    let expired = v.to_lowercase().contains("max-age=0") || val.is_empty();
                    if expired {
                        self.cookies.remove(name.trim());
                    } else {
                        self.cookies.insert(name.trim().to_string(), val.trim().to_string());
                    }
                }
            }
        }
        Ok(resp)
    }

    /// the bytes of one request (head with the session's cookies, then the payload)
    fn build(&self, method: &str, path: &str, body: &Body) -> Vec<u8> {
        let (ctype, payload): (Option<String>, Vec<u8>) = match body {
            Body::None => (None, Vec::new()),
            Body::Json(v) => (Some("application/json".into()), serde_json::to_vec(v).unwrap()),
            Body::Form(fields) => {
                let boundary = "----websimBoundary7MA4YWxkTrZu0gW";
                let mut p = Vec::new();
                for (k, v) in fields {
                    p.extend(format!("--{}\r\nContent-Disposition: form-data; name=\"{}\"\r\n\r\n", boundary, k).as_bytes());
                    p.extend(v.as_bytes());
                    p.extend(b"\r\n");
                }
                p.extend(format!("--{}--\r\n", boundary).as_bytes());
                (Some(format!("multipart/form-data; boundary={}", boundary)), p)
            }
        };
        let mut req = format!("{} {} HTTP/1.1\r\nHost: 127.0.0.1:{}\r\nConnection: close\r\nAccept: */*\r\n", method, path, self.port);
        if !self.cookies.is_empty() {
            let c: Vec<String> = self.cookies.iter().map(|(k, v)| format!("{}={}", k, v)).collect();
            req.push_str(&format!("Cookie: {}\r\n", c.join("; ")));
        }
        if let Some(ct) = ctype {
            req.push_str(&format!("Content-Type: {}\r\n", ct));
        }
        if !payload.is_empty() || method == "POST" || method == "PUT" {
            req.push_str(&format!("Content-Length: {}\r\n", payload.len()));
        }
        req.push_str("\r\n");
        let mut bytes = req.into_bytes();
        bytes.extend(payload);
        bytes
    }

    pub fn get(&mut self, path: &str) -> Result<Response, String> {
        self.request("GET", path, Body::None)
    }
}

fn parse_response(raw: &[u8]) -> Result<Response, String> {
    let pos = raw.windows(4).position(|w| w == b"\r\n\r\n").ok_or_else(|| format!("no header end in {} bytes", raw.len()))?;
    let head = String::from_utf8_lossy(&raw[..pos]).to_string();
    let mut lines = head.split("\r\n");
    let status_line = lines.next().unwrap_or("");
    let status: u16 = status_line.split(' ').nth(1).and_then(|s| s.parse().ok()).ok_or_else(|| format!("bad status line {:?}", status_line))?;
    let mut headers = Vec::new();
    for l in lines {
        if let Some((k, v)) = l.split_once(':') {
            headers.push((k.trim().to_string(), v.trim().to_string()));
        }
    }
    let mut body = raw[pos + 4..].to_vec();
    let chunked = headers.iter().any(|(k, v)| k.eq_ignore_ascii_case("transfer-encoding") && v.to_lowercase().contains("chunked"));
    if chunked {
        let mut out = Vec::new();
        let mut p = 0;
        loop {
            let e = body[p..].windows(2).position(|w| w == b"\r\n").ok_or("bad chunk")? + p;
            let size = usize::from_str_radix(String::from_utf8_lossy(&body[p..e]).split(';').next().unwrap_or("0").trim(), 16).map_err(|e| e.to_string())?;
            p = e + 2;
            if size == 0 {
                break;
            }
            out.extend(&body[p..p + size]);
            p += size + 2;
        }
        body = out;
    } else if let Some((_, v)) = headers.iter().find(|(k, _)| k.eq_ignore_ascii_case("content-length")) {
        if let Ok(n) = v.parse::<usize>() {
            body.truncate(n);
        }
    }
    Ok(Response {
        status,
        headers,
        body,
    })
}

/// percent-encode a path segment
pub fn enc(s: &str) -> String {
    let mut out = String::new();
    for b in s.bytes() {
        if b.is_ascii_alphanumeric() || b == b'-' || b == b'_' || b == b'.' {
            out.push(b as char);
        } else {
            out.push_str(&format!("%{:02X}", b));
        }
    }
    out
}
