//! Test environment: stub database + the real server process built from /repo.

use crate::http::Session;
use crate::mongo::Stub;
use std::process::{Child, Command, Stdio};
use std::time::{Duration, Instant};

pub struct Env {
    pub stub: Stub,
    pub server: Child,
    pub port: u16,
    pub workdir: std::path::PathBuf,
}

impl Env {
    /// `delay`: value for VERIF_TASK_DELAY_MS (hook H7), e.g. "0", "30", "5-60"
    pub fn start(server_bin: &str, delay: &str, workdir: &std::path::Path) -> Result<Env, String> {
        let stub = Stub::start().map_err(|e| format!("stub: {}", e))?;
        std::fs::create_dir_all(workdir).map_err(|e| e.to_string())?;
        std::fs::create_dir_all(workdir.join("assets")).ok();
        std::fs::write(workdir.join("assets").join("index.html"), "<html>stub</html>").ok();
        let log = std::fs::File::create(workdir.join("server.log")).map_err(|e| e.to_string())?;
        let mut cmd = Command::new(server_bin);
        // the server must not outlive this process, however it ends (the driver's watchdog kills with SIGKILL)
        use std::os::unix::process::CommandExt;
        unsafe {
            cmd.pre_exec(|| {
                libc::prctl(libc::PR_SET_PDEATHSIG, libc::SIGKILL as libc::c_ulong);
                Ok(())
            });
        }
        let server = cmd
            .current_dir(workdir)
            .env("MONGODB_URI", stub.uri())
            .env("VERIF_TASK_DELAY_MS", delay)
            .env("RUST_BACKTRACE", "0")
            .envs(rust_log_setting())
            .stdin(Stdio::null())
            .stdout(Stdio::null())
            .stderr(Stdio::from(log))
            .spawn()
            .map_err(|e| format!("cannot start {}: {}", server_bin, e))?;
        let mut env = Env {
            stub,
            server,
            port: 8080,
            workdir: workdir.to_path_buf(),
        };
        // wait for the listener
        let t0 = Instant::now();
        loop {
            if let Ok(Some(st)) = env.server.try_wait() {
                return Err(format!("server exited early with {:?}: {}", st, env.server_log_tail()));
            }
            if std::net::TcpStream::connect(("127.0.0.1", env.port)).is_ok() {
                break;
            }
            if t0.elapsed() > Duration::from_secs(60) {
                env.stop();
                return Err("server did not open its port within 60s".into());
            }
            std::thread::sleep(Duration::from_millis(20));
        }
        Ok(env)
    }

    pub fn session(&self) -> Session {
        Session::new(self.port)
    }

    pub fn server_log_tail(&self) -> String {
        std::fs::read_to_string(self.workdir.join("server.log"))
            .map(|s| s.lines().rev().take(8).collect::<Vec<_>>().join(" | "))
            .unwrap_or_default()
    }

    pub fn alive(&mut self) -> bool {
        matches!(self.server.try_wait(), Ok(None))
    }

    pub fn stop(&mut self) {
        let _ = self.server.kill();
        let _ = self.server.wait();
    }
}

impl Drop for Env {
    fn drop(&mut self) {
        self.stop();
    }
}

/// the environment the service is deployed in is not the service's business: a quarter of the shards each run
/// their server processes with RUST_LOG unset, `info`, `warn`, `debug` (VERIF_SERVER_RUST_LOG, set by main from seed
/// and shard number and counted in the evidence); no answer may depend on it
fn rust_log_setting() -> Vec<(&'static str, &'static str)> {
    match std::env::var("VERIF_SERVER_RUST_LOG").ok().as_deref() {
        Some("info") => vec![("RUST_LOG", "info")],
        Some("warn") => vec![("RUST_LOG", "warn")],
        Some("debug") => vec![("RUST_LOG", "debug")],
        _ => Vec::new(),
    }
}
