//! C17: user isolation and credential handling under concurrent multi-user histories.
//! Every user is a thread with its own cookie jar and a sequential model of what that user would
//! observe if alone; the stub database is audited against the union of the models at barriers.

use crate::c16::{add_problem, solve, STRATEGIES};
use crate::env::Env;
use crate::http::{enc, Body, Session};
use crate::report::{hash_str, Report};
use oracle::Rng;
use serde_json::{json, Value};
use std::collections::{BTreeMap, BTreeSet};
use std::sync::{Arc, Barrier, Mutex};

#[derive(Clone, Debug)]
struct Problem {
    code: String,
    marker: String,
    /// how often a solve for a strategy was accepted (200) for this problem
    accepted: BTreeMap<String, u32>,
}

#[derive(Clone, Debug, Default)]
struct Model {
    /// accounts created by this user that are alive: name -> (current password or None for temporary)
    accounts: BTreeMap<String, Option<String>>,
    /// every password ever used for an account name (to try stale ones)
    old_passwords: Vec<(String, String)>,
    /// name the session is logged in as
    identity: Option<String>,
    /// problems per owning account name
    problems: BTreeMap<String, BTreeMap<String, Problem>>,
    /// tasks ever started per (account name, problem name): task -> count. Survives delete + re-add of a
    /// problem, because a task of the deleted problem may still be in flight under the same key
    started: BTreeMap<(String, String), BTreeMap<String, u32>>,
}

#[derive(Clone, Debug)]
struct Event {
    user: usize,
    op: String,
    status: u16,
    expected: String,
}

struct Shared {
    /// markers of all users: marker -> user index
    markers: Mutex<BTreeMap<String, usize>>,
    violations: Mutex<Vec<(String, String, Value)>>,
    events: Mutex<Vec<Event>>,
    counters: Mutex<BTreeMap<String, u64>>,
    race: Mutex<Vec<(usize, u16)>>,
    models: Mutex<Vec<Model>>,
    inconclusive: Mutex<Vec<String>>,
}

impl Shared {
    fn count(&self, k: &str) {
        *self.counters.lock().unwrap().entry(k.to_string()).or_insert(0) += 1;
    }
    fn violation(&self, sig: &str, msg: String, replay: Value) {
        self.violations.lock().unwrap().push((sig.to_string(), msg, replay));
    }
    fn failed(&self) -> bool {
        !self.violations.lock().unwrap().is_empty() || !self.inconclusive.lock().unwrap().is_empty()
    }
}

const PROBLEM_NAMES: [&str; 4] = ["p1", "p2", "shared problem", "x"];

fn gen_code(rng: &mut Rng, marker: &str) -> String {
    // small valid ADF that carries the marker as a statement label
    let other = ["a", "b", "zz"][rng.below(3)];
    match rng.below(4) {
        0 => format!("s({m}).s({o}).ac({m},neg({o})).ac({o},neg({m})).", m = marker, o = other),
        1 => format!("s({m}).ac({m},c(v)).", m = marker),
        2 => format!("s({o}).s({m}).ac({o},{m}).ac({m},or({m},neg({o}))).", m = marker, o = other),
        _ => format!("s({m}).s({o}).ac({m},and({o},{m})).ac({o},c(f)).", m = marker, o = other),
    }
}

/// no marker of another user's problem may occur in a response to this user
fn foreign_marker(shared: &Shared, user: usize, text: &str) -> Option<String> {
    let markers = shared.markers.lock().unwrap();
    markers.iter().find(|(m, u)| **u != user && text.contains(m.as_str())).map(|(m, _)| m.clone())
}

struct UserCtx<'a> {
    idx: usize,
    run: u64,
    s: Session,
    m: Model,
    rng: Rng,
    shared: &'a Shared,
    stub: &'a crate::mongo::Stub,
    replay: Value,
    next_name: usize,
    next_marker: usize,
}

impl<'a> UserCtx<'a> {
    fn fresh_account_name(&mut self) -> String {
        self.next_name += 1;
        format!("r{}u{}n{}", self.run, self.idx, self.next_name)
    }

    fn fresh_password(&mut self) -> String {
        let p = format!("PWtok{:016x}", self.rng.next_u64());
        self.stub.add_secret(&p);
        p
    }

    fn check(&mut self, op: &str, resp: &crate::http::Response, expected: &[u16]) -> bool {
        self.shared.count(&format!("op.{}", op.split(' ').next().unwrap_or(op)));
        self.shared.events.lock().unwrap().push(Event {
            user: self.idx,
            op: op.to_string(),
            status: resp.status,
            expected: format!("{:?}", expected),
        });
        let text = resp.text();
        if let Some(mk) = foreign_marker(self.shared, self.idx, &text) {
            self.shared.violation(
                "foreign-problem-data-in-response",
                format!("user {} {}: response ({}) contains marker {} of another user's problem", self.idx, op, resp.status, mk),
                self.replay.clone(),
            );
            return false;
        }
        if !expected.contains(&resp.status) {
            self.shared.violation(
                &format!("status-differs-from-single-user-model:{}", op.split(' ').next().unwrap_or(op)),
                format!("user {} {}: status {} ({}), the single-user model expects {:?}; model identity {:?}", self.idx, op, resp.status, text.chars().take(120).collect::<String>(), expected, self.m.identity),
                self.replay.clone(),
            );
            return false;
        }
        true
    }

    fn own_problems(&self) -> BTreeMap<String, Problem> {
        self.m.identity.as_ref().and_then(|i| self.m.problems.get(i)).cloned().unwrap_or_default()
    }

    /// wait until none of this user's tasks is running (keeps the single-user model exact before rename/delete)
    fn quiesce(&mut self) -> bool {
        if self.m.identity.is_none() {
            return true;
        }
        for _ in 0..20_000 {
            let Ok(r) = self.s.get("/adf/") else { return false };
            if r.status != 200 {
                return true;
            }
            let Some(list) = r.json() else { return true };
            let busy = list.as_array().map(|a| a.iter().any(|p| p["running_tasks"].as_array().map(|t| !t.is_empty()).unwrap_or(false) || p["acs_per_strategy"]["parse_only"]["type"] == "None")).unwrap_or(false);
            if !busy {
                return true;
            }
            std::thread::sleep(std::time::Duration::from_millis(2));
        }
        self.shared.inconclusive.lock().unwrap().push("quiesce bound reached".into());
        false
    }

    fn step(&mut self) -> bool {
        // most of the interesting behaviour needs a session: without one, usually get one first
        if self.m.identity.is_none() && self.rng.chance(2, 3) {
            let has_pw_account = self.m.accounts.values().any(|p| p.is_some());
            return if !has_pw_account {
                if self.rng.chance(1, 3) {
                    self.op_add()
                } else {
                    self.op_register()
                }
            } else {
                self.op_login()
            };
        }
        let choice = self.rng.below(100);
        match choice {
            0..=7 => self.op_register(),
            8..=19 => self.op_login(),
            20..=24 => self.op_logout(),
            25..=31 => self.op_update(),
            32..=35 => self.op_delete_account(),
            36..=53 => self.op_add(),
            54..=65 => self.op_get(),
            66..=73 => self.op_list(),
            74..=89 => self.op_solve(),
            90..=95 => self.op_delete_problem(),
            _ => self.op_info(),
        }
    }

    fn op_register(&mut self) -> bool {
        // mostly a fresh name, sometimes one of the own live accounts (conflict)
        let existing: Vec<String> = self.m.accounts.keys().cloned().collect();
        let (name, expect) = if !existing.is_empty() && self.rng.chance(1, 4) {
            (self.rng.pick(&existing).clone(), 409)
        } else {
            (self.fresh_account_name(), 200)
        };
        let pw = self.fresh_password();
        let Ok(r) = self.s.request("POST", "/users/register", Body::Json(json!({"username": name, "password": pw}))) else { return false };
        if !self.check("register", &r, &[expect]) {
            return false;
        }
        if expect == 200 {
            self.m.accounts.insert(name.clone(), Some(pw.clone()));
            self.m.old_passwords.push((name, pw));
        }
        true
    }

    fn op_login(&mut self) -> bool {
        let accounts: Vec<(String, Option<String>)> = self.m.accounts.iter().map(|(k, v)| (k.clone(), v.clone())).collect();
        let kind = self.rng.below(10);
        let (name, pw, expect): (String, String, u16) = if accounts.is_empty() || kind == 0 {
            (format!("nobody{}x{}", self.run, self.idx), "whatever".into(), 404)
        } else {
            let (n, p) = self.rng.pick(&accounts).clone();
            match (p, kind) {
                (None, _) => (n, "anything".into(), 400),
                (Some(_), 1 | 2) => {
                    // a stale or foreign password
                    let stale: Vec<String> = self.m.old_passwords.iter().filter(|(an, op)| *an == n && Some(op) != self.m.accounts[&n].as_ref()).map(|(_, p)| p.clone()).collect();
                    let cand = if stale.is_empty() { "wrong-password".to_string() } else { self.rng.pick(&stale).clone() };
                    (n, cand, 400)
                }
                (Some(p), _) => (n, p, 200),
            }
        };
        let Ok(r) = self.s.request("POST", "/users/login", Body::Json(json!({"username": name, "password": pw}))) else { return false };
        if !self.check(&format!("login expect{}", expect), &r, &[expect]) {
            if expect != 200 && r.status == 200 {
                self.shared.violation("login-accepted-wrong-credentials", format!("login as {} with a password that is not the current one succeeded", name), self.replay.clone());
            }
            return false;
        }
        if expect == 200 {
            self.m.identity = Some(name);
        }
        true
    }

    fn op_logout(&mut self) -> bool {
        let expect = match &self.m.identity {
            None => 401,
            Some(i) => match self.m.accounts.get(i) {
                None => 404,
                Some(None) => 400,
                Some(Some(_)) => 200,
            },
        };
        let Ok(r) = self.s.request("DELETE", "/users/logout", Body::None) else { return false };
        if !self.check("logout", &r, &[expect]) {
            return false;
        }
        if expect == 200 {
            self.m.identity = None;
        }
        true
    }

    fn op_info(&mut self) -> bool {
        let expect = match &self.m.identity {
            None => 401,
            Some(i) if self.m.accounts.contains_key(i) => 200,
            Some(_) => 404,
        };
        let Ok(r) = self.s.get("/users/info") else { return false };
        if !self.check("info", &r, &[expect]) {
            return false;
        }
        if expect == 200 {
            let j = r.json().unwrap_or(Value::Null);
            let id = self.m.identity.clone().unwrap();
            let temp = self.m.accounts[&id].is_none();
            if j["username"].as_str() != Some(id.as_str()) || j["temp"].as_bool() != Some(temp) {
                self.shared.violation("info-differs", format!("user {} info {} but model says {} temp={}", self.idx, j, id, temp), self.replay.clone());
                return false;
            }
        }
        if expect == 404 {
            self.m.identity = None;
        }
        true
    }

    fn op_update(&mut self) -> bool {
        if !self.quiesce() {
            return false;
        }
        let rename = self.rng.bool();
        let current = self.m.identity.clone();
        let others: Vec<String> = self.m.accounts.keys().filter(|k| Some(*k) != current.as_ref()).cloned().collect();
        let (newname, conflict) = match &current {
            Some(c) if !rename => (c.clone(), false),
            _ => {
                if !others.is_empty() && self.rng.chance(1, 4) {
                    (self.rng.pick(&others).clone(), true)
                } else {
                    (self.fresh_account_name(), false)
                }
            }
        };
        let pw = self.fresh_password();
        let expect = match &current {
            None => 401,
            Some(_) if conflict => 409,
            Some(c) if !self.m.accounts.contains_key(c) => 500,
            Some(_) => 200,
        };
        let Ok(r) = self.s.request("PUT", "/users/update", Body::Json(json!({"username": newname, "password": pw}))) else { return false };
        if !self.check("update", &r, &[expect]) {
            return false;
        }
        if expect == 200 {
            let old = current.unwrap();
            self.m.accounts.remove(&old);
            self.m.accounts.insert(newname.clone(), Some(pw.clone()));
            self.m.old_passwords.push((newname.clone(), pw));
            let keys: Vec<(String, String)> = self.m.started.keys().filter(|k| k.0 == old).cloned().collect();
            for k in keys {
                if let Some(v) = self.m.started.remove(&k) {
                    self.m.started.insert((newname.clone(), k.1.clone()), v);
                }
            }
            let probs = self.m.problems.remove(&old).unwrap_or_default();
            self.m.problems.entry(newname.clone()).or_default().extend(probs);
            self.m.identity = Some(newname);
        }
        true
    }

    fn op_delete_account(&mut self) -> bool {
        if !self.quiesce() {
            return false;
        }
        let expect = match &self.m.identity {
            None => 401,
            Some(i) if self.m.accounts.contains_key(i) => 200,
            Some(_) => 500,
        };
        let Ok(r) = self.s.request("DELETE", "/users/delete", Body::None) else { return false };
        if !self.check("delete_account", &r, &[expect]) {
            return false;
        }
        if expect == 200 {
            let id = self.m.identity.take().unwrap();
            self.m.accounts.remove(&id);
            self.m.problems.remove(&id);
        }
        true
    }

    fn op_add(&mut self) -> bool {
        let name = self.rng.pick(&PROBLEM_NAMES).to_string();
        self.next_marker += 1;
        let marker = format!("mk{}u{}q{}", self.run, self.idx, self.next_marker);
        self.shared.markers.lock().unwrap().insert(marker.clone(), self.idx);
        let code = gen_code(&mut self.rng, &marker);
        let parsing = if self.rng.bool() { "Naive" } else { "Hybrid" };
        let stale_identity = matches!(&self.m.identity, Some(i) if !self.m.accounts.contains_key(i));
        if stale_identity {
            // the session still names an account that no longer exists: learn that first
            return self.op_info();
        }
        let exists = self.own_problems().contains_key(&name);
        let expect = if self.m.identity.is_some() && exists { 409 } else { 200 };
        let Ok(r) = add_problem(&mut self.s, &name, &code, parsing) else { return false };
        if !self.check("add", &r, &[expect]) {
            return false;
        }
        if expect == 200 {
            if self.m.identity.is_none() {
                // a temporary account was created for us; learn its name
                let Ok(i) = self.s.get("/users/info") else { return false };
                let j = i.json().unwrap_or(Value::Null);
                let (Some(n), Some(true)) = (j["username"].as_str(), j["temp"].as_bool()) else {
                    self.shared.violation("temp-account-not-created", format!("info after anonymous add: {} {}", i.status, i.text()), self.replay.clone());
                    return false;
                };
                self.m.accounts.insert(n.to_string(), None);
                self.m.identity = Some(n.to_string());
                self.shared.count("temp_accounts");
            }
            let id = self.m.identity.clone().unwrap();
            *self.m.started.entry((id.clone(), name.clone())).or_default().entry("Parse".into()).or_insert(0) += 1;
            self.m.problems.entry(id).or_default().insert(name, Problem { code, marker, accepted: BTreeMap::new() });
        }
        true
    }

    fn pick_problem_name(&mut self) -> String {
        let own: Vec<String> = self.own_problems().keys().cloned().collect();
        if !own.is_empty() && self.rng.chance(3, 4) {
            self.rng.pick(&own).clone()
        } else {
            self.rng.pick(&PROBLEM_NAMES).to_string()
        }
    }

    fn op_get(&mut self) -> bool {
        let name = self.pick_problem_name();
        let own = self.own_problems();
        let expect = if self.m.identity.is_none() { 401 } else if own.contains_key(&name) { 200 } else { 404 };
        let Ok(r) = self.s.get(&format!("/adf/{}", enc(&name))) else { return false };
        if !self.check("get", &r, &[expect]) {
            return false;
        }
        if expect == 200 {
            let j = r.json().unwrap_or(Value::Null);
            if j["code"].as_str() != Some(own[&name].code.as_str()) {
                self.shared.violation("own-problem-changed", format!("user {} get {:?}: code {:?}, submitted {:?}", self.idx, name, j["code"], own[&name].code), self.replay.clone());
                return false;
            }
            if !self.check_running("get", &j) {
                return false;
            }
        }
        true
    }

    fn op_list(&mut self) -> bool {
        let expect = if self.m.identity.is_none() { 401 } else { 200 };
        let Ok(r) = self.s.get("/adf/") else { return false };
        if !self.check("list", &r, &[expect]) {
            return false;
        }
        if expect == 200 {
            let own = self.own_problems();
            let j = r.json().unwrap_or(Value::Null);
            let got: BTreeSet<(String, String)> = j.as_array().map(|a| a.iter().map(|p| (p["name"].as_str().unwrap_or("").to_string(), p["code"].as_str().unwrap_or("").to_string())).collect()).unwrap_or_default();
            let want: BTreeSet<(String, String)> = own.iter().map(|(k, v)| (k.clone(), v.code.clone())).collect();
            for p in j.as_array().cloned().unwrap_or_default() {
                if !self.check_running("list", &p) {
                    return false;
                }
            }
            if got != want || j.as_array().map(|a| a.len()) != Some(want.len()) {
                self.shared.violation(
                    "list-differs-from-own-problems",
                    format!("user {} list: {:?}, own problems {:?}", self.idx, got.iter().map(|x| &x.0).collect::<Vec<_>>(), want.iter().map(|x| &x.0).collect::<Vec<_>>()),
                    self.replay.clone(),
                );
                return false;
            }
        }
        true
    }

    fn op_solve(&mut self) -> bool {
        let name = self.pick_problem_name();
        let own = self.own_problems();
        let st = *self.rng.pick(&STRATEGIES);
        // parsing may still be running; 400 (not parsed yet) and 409 (already solved / running) are then legal too
        let expect: Vec<u16> = if self.m.identity.is_none() { vec![401] } else if own.contains_key(&name) { vec![200, 400, 409] } else { vec![404] };
        let Ok(r) = solve(&mut self.s, &name, st) else { return false };
        if r.status == 200 {
            if let Some(id) = self.m.identity.clone() {
                if let Some(p) = self.m.problems.get_mut(&id).and_then(|ps| ps.get_mut(&name)) {
                    *p.accepted.entry(st.to_string()).or_insert(0) += 1;
                }
                *self.m.started.entry((id.clone(), name.clone())).or_default().entry(st.to_string()).or_insert(0) += 1;
            }
        }
        self.check("solve", &r, &expect)
    }

    /// task book-keeping as seen by this user: a listed task must be one this user started for this problem
    /// and its result must not be stored yet (unless the same solve was accepted twice)
    fn check_running(&mut self, op: &str, problem: &Value) -> bool {
        let name = problem["name"].as_str().unwrap_or("").to_string();
        let own = self.own_problems();
        if !own.contains_key(&name) {
            return true;
        }
        let id = self.m.identity.clone().unwrap_or_default();
        let started = self.m.started.get(&(id, name.clone())).cloned().unwrap_or_default();
        for t in problem["running_tasks"].as_array().cloned().unwrap_or_default() {
            self.shared.count("running_task_entries_checked");
            let (task, field) = match t["type"].as_str() {
                Some("Parse") => ("Parse".to_string(), "parse_only"),
                _ => {
                    let st = t["content"].as_str().unwrap_or("?").to_string();
                    let f = crate::c16::field_of(&st);
                    (st, f)
                }
            };
            let accepted = started.get(&task).copied().unwrap_or(0);
            let stored = problem["acs_per_strategy"][field]["type"].as_str().map(|x| x != "None").unwrap_or(false);
            if accepted == 0 || (stored && accepted < 2) {
                self.shared.violation(
                    "task-of-someone-else-reported",
                    format!(
                        "user {} {}: problem {:?} lists {} as running, but this user {} (another user's same-named problem may be busy)",
                        self.idx, op, name, task,
                        if accepted == 0 { "never started it".to_string() } else { "already has its result stored".to_string() }
                    ),
                    self.replay.clone(),
                );
                return false;
            }
        }
        true
    }

    fn op_delete_problem(&mut self) -> bool {
        let name = self.pick_problem_name();
        let own = self.own_problems();
        let expect = if self.m.identity.is_none() { 401 } else if own.contains_key(&name) { 200 } else { 500 };
        let Ok(r) = self.s.request("DELETE", &format!("/adf/{}", enc(&name)), Body::None) else { return false };
        if !self.check("delete_problem", &r, &[expect]) {
            return false;
        }
        if expect == 200 {
            let id = self.m.identity.clone().unwrap();
            if let Some(p) = self.m.problems.get_mut(&id) {
                p.remove(&name);
            }
        }
        true
    }
}

/// unauthenticated requests obtain no problem data
fn anonymous_probe(env: &Env, shared: &Shared, rng: &mut Rng, replay: &Value) {
    let mut s = env.session();
    let name = rng.pick(&PROBLEM_NAMES).to_string();
    let reqs: Vec<(&str, String, Body)> = vec![
        ("GET", format!("/adf/{}", enc(&name)), Body::None),
        ("GET", "/adf/".to_string(), Body::None),
        ("DELETE", format!("/adf/{}", enc(&name)), Body::None),
        ("PUT", format!("/adf/{}/solve", enc(&name)), Body::Json(json!({"strategy": "Ground"}))),
        ("GET", "/users/info".to_string(), Body::None),
        ("DELETE", "/users/delete".to_string(), Body::None),
        ("PUT", "/users/update".to_string(), Body::Json(json!({"username": "intruder", "password": "intruder-pw"}))),
    ];
    for (m, p, b) in reqs {
        let Ok(r) = s.request(m, &p, b) else { return };
        shared.count("anonymous_requests");
        let text = r.text();
        let leaked = shared.markers.lock().unwrap().keys().any(|mk| text.contains(mk.as_str()));
        if r.status != 401 || leaked {
            shared.violation(
                "unauthenticated-request-not-rejected",
                format!("{} {} without a session -> {} {}", m, p, r.status, text.chars().take(120).collect::<String>()),
                replay.clone(),
            );
            return;
        }
    }
}

/// the database equals the union of the user models (called while all user threads wait at a barrier)
fn audit_db(env: &Env, shared: &Shared, run: u64, replay: &Value) {
    let models = shared.models.lock().unwrap().clone();
    let prefix_u = format!("r{}u", run);
    let users = env.stub.users();
    let problems = env.stub.problems();
    // expected accounts of this run
    let mut want_accounts: BTreeMap<String, bool> = BTreeMap::new();
    let mut want_problems: BTreeSet<(String, String, String)> = BTreeSet::new();
    let mut temp_names: BTreeSet<String> = BTreeSet::new();
    for m in &models {
        for (n, pw) in &m.accounts {
            want_accounts.insert(n.clone(), pw.is_none());
            if pw.is_none() {
                temp_names.insert(n.clone());
            }
        }
        for (owner, ps) in &m.problems {
            for (name, p) in ps {
                want_problems.insert((owner.clone(), name.clone(), p.code.clone()));
            }
        }
    }
    let known: BTreeSet<String> = models.iter().flat_map(|m| m.accounts.keys().cloned()).collect();
    let mine = |u: &str| u.starts_with(&prefix_u) || temp_names.contains(u) || known.contains(u);
    let mut got_accounts: BTreeMap<String, bool> = BTreeMap::new();
    let mut hashes: Vec<String> = Vec::new();
    for u in &users {
        let name = u.get_str("username").unwrap_or("").to_string();
        if !mine(&name) {
            continue;
        }
        let temp = match u.get("password") {
            Some(bson::Bson::String(h)) => {
                if !h.starts_with("$argon2") {
                    shared.violation("credential-not-a-salted-hash", format!("stored credential of {} is {:?}", name, h.chars().take(20).collect::<String>()), replay.clone());
                    return;
                }
                hashes.push(h.clone());
                false
            }
            _ => true,
        };
        got_accounts.insert(name, temp);
    }
    shared.count("db_audits");
    let hs: BTreeSet<&String> = hashes.iter().collect();
    if hs.len() != hashes.len() {
        shared.violation("credential-hashes-repeat", "two accounts share a stored hash".into(), replay.clone());
        return;
    }
    if got_accounts != want_accounts {
        shared.violation(
            "accounts-differ-from-models",
            format!("database accounts {:?}, union of the user models {:?}", got_accounts, want_accounts),
            replay.clone(),
        );
        return;
    }
    let mut got_problems: BTreeSet<(String, String, String)> = BTreeSet::new();
    let mut count = 0;
    for p in &problems {
        let owner = p.get_str("username").unwrap_or("").to_string();
        if !mine(&owner) && !models.iter().any(|m| m.problems.contains_key(&owner)) {
            // may belong to an account of this run that has been renamed/deleted: decide by the marker
            let code = p.get_str("code").unwrap_or("");
            if !code.contains(&format!("mk{}u", run)) {
                continue;
            }
        }
        count += 1;
        got_problems.insert((owner, p.get_str("name").unwrap_or("").to_string(), p.get_str("code").unwrap_or("").to_string()));
    }
    // no document of one user may carry data derived from another user's problem (results of background
    // tasks are part of the document): scan every document of this run for foreign markers
    {
        let markers = shared.markers.lock().unwrap().clone();
        let owner_of = |account: &str| models.iter().position(|m| m.accounts.contains_key(account));
        for p in &problems {
            let owner = p.get_str("username").unwrap_or("");
            let Some(uidx) = owner_of(owner) else { continue };
            let text = format!("{}", p);
            if let Some((mk, _)) = markers.iter().find(|(mk, u)| **u != uidx && text.contains(mk.as_str())) {
                shared.violation(
                    "foreign-data-in-stored-problem",
                    format!("the stored problem {}/{} of user {} contains marker {} of another user's problem", owner, p.get_str("name").unwrap_or(""), uidx, mk),
                    replay.clone(),
                );
                return;
            }
        }
        shared.count("stored_problems_scanned_for_foreign_markers");
    }
    if got_problems != want_problems || count != want_problems.len() {
        let fmt = |s: &BTreeSet<(String, String, String)>| s.iter().map(|(o, n, c)| format!("{}/{}:{}", o, n, c.chars().take(24).collect::<String>())).collect::<Vec<_>>();
        shared.violation(
            "problems-differ-from-models",
            format!("database problems {:?}, union of the user models {:?}", fmt(&got_problems), fmt(&want_problems)),
            replay.clone(),
        );
        return;
    }
    let leaks = env.stub.db.lock().unwrap().leaks.clone();
    if let Some(l) = leaks.first() {
        shared.violation("password-travelled-to-database", l.clone(), replay.clone());
    }
}

pub fn run_history(env: &Env, rep: &mut Report, run: u64, case_seed: u64, nusers: usize, steps: usize) {
    let mut rng = Rng::new(case_seed);
    let replay = json!({"property": "c17", "case_seed": case_seed.to_string(), "users": nusers, "steps": steps, "run": run});
    let shared = Shared {
        markers: Mutex::new(BTreeMap::new()),
        violations: Mutex::new(Vec::new()),
        events: Mutex::new(Vec::new()),
        counters: Mutex::new(BTreeMap::new()),
        race: Mutex::new(Vec::new()),
        models: Mutex::new(vec![Model::default(); nusers]),
        inconclusive: Mutex::new(Vec::new()),
    };
    let barrier = Arc::new(Barrier::new(nusers));
    let seeds: Vec<u64> = (0..nusers).map(|_| rng.next_u64()).collect();
    let seed_common = rng.next_u64();
    let phase_len = 6 + rng.below(6);
    let log_start = env.stub.db.lock().unwrap().log.len();
    rep.evaluations += 1;
    std::thread::scope(|scope| {
        for (idx, seed) in seeds.iter().enumerate() {
            let barrier = barrier.clone();
            let shared = &shared;
            let replay = replay.clone();
            let seed = *seed;
            scope.spawn(move || {
                let mut ctx = UserCtx {
                    idx,
                    run,
                    s: env.session(),
                    m: Model::default(),
                    rng: Rng::new(seed),
                    shared,
                    stub: &env.stub,
                    replay: replay.clone(),
                    next_name: 0,
                    next_marker: 0,
                };
                let mut alive = true;
                for step in 0..steps {
                    if alive && !shared.failed() {
                        alive = ctx.step();
                        if ctx.rng.chance(1, 2) {
                            std::thread::sleep(std::time::Duration::from_micros(ctx.rng.below(3000) as u64));
                        }
                    }
                    if step % phase_len == phase_len - 1 || step + 1 == steps {
                        // barrier: everybody quiesces, one thread audits the database
                        if alive && !shared.failed() {
                            alive = ctx.quiesce();
                        }
                        shared.models.lock().unwrap()[idx] = ctx.m.clone();
                        let leader = barrier.wait().is_leader();
                        if leader && !shared.failed() {
                            audit_db(env, shared, run, &replay);
                            let mut r = Rng::new(seed ^ step as u64);
                            anonymous_probe(env, shared, &mut r, &replay);
                        }
                        barrier.wait();
                        // name-uniqueness race: everybody tries to register the same fresh name at the same moment;
                        // exactly one may win (the others get 409 or a duplicate-key 500)
                        if (seed_common ^ step as u64) % 2 == 0 {
                            let contested = format!("r{}contest{}", run, step);
                            let pw = ctx.fresh_password();
                            // a participant with a password account and a session may try to RENAME itself to the
                            // contested name instead of registering it (all its tasks are quiescent at this point)
                            let can_rename = matches!(&ctx.m.identity, Some(i) if matches!(ctx.m.accounts.get(i), Some(Some(_))));
                            let rename = can_rename && ctx.rng.bool();
                            barrier.wait();
                            let status = if alive && !shared.failed() {
                                if rename {
                                    ctx.s.request("PUT", "/users/update", Body::Json(json!({"username": contested, "password": pw}))).map(|r| r.status).unwrap_or(0)
                                } else {
                                    ctx.s.request("POST", "/users/register", Body::Json(json!({"username": contested, "password": pw}))).map(|r| r.status).unwrap_or(0)
                                }
                            } else {
                                0
                            };
                            shared.race.lock().unwrap().push((idx, status));
                            shared.count(if rename { "race_renames" } else { "race_registrations" });
                            if status == 200 && rename {
                                let old = ctx.m.identity.clone().unwrap();
                                ctx.m.accounts.remove(&old);
                                let keys: Vec<(String, String)> = ctx.m.started.keys().filter(|k| k.0 == old).cloned().collect();
                                for k in keys {
                                    if let Some(v) = ctx.m.started.remove(&k) {
                                        ctx.m.started.insert((contested.clone(), k.1.clone()), v);
                                    }
                                }
                                let probs = ctx.m.problems.remove(&old).unwrap_or_default();
                                ctx.m.problems.entry(contested.clone()).or_default().extend(probs);
                                ctx.m.identity = Some(contested.clone());
                            }
                            if status == 200 {
                                ctx.m.accounts.insert(contested.clone(), Some(pw.clone()));
                                ctx.m.old_passwords.push((contested.clone(), pw));
                            }
                            // whatever happened, the session must still be what the single-user model says
                            if alive && !shared.failed() && status != 0 {
                                alive = ctx.op_info();
                            }
                            let leader = barrier.wait().is_leader();
                            if leader {
                                let mut race = shared.race.lock().unwrap();
                                let tried: Vec<u16> = race.iter().map(|(_, s)| *s).filter(|s| *s != 0).collect();
                                let wins = tried.iter().filter(|s| **s == 200).count();
                                let bad = tried.iter().filter(|s| ![200u16, 409, 500].contains(*s)).count();
                                let stored = env.stub.users().iter().filter(|u| u.get_str("username") == Ok(contested.as_str())).count();
                                shared.count("registration_races");
                                if !tried.is_empty() && !shared.failed() && (wins != 1 || bad != 0 || stored != 1) {
                                    shared.violation(
                                        "account-name-not-unique-under-race",
                                        format!("{} users registered {:?} at the same moment: statuses {:?}, {} accounts with that name stored", tried.len(), contested, tried, stored),
                                        replay.clone(),
                                    );
                                }
                                race.clear();
                            }
                            barrier.wait();
                        }
                    }
                }
            });
        }
    });
    // evidence
    for (k, v) in shared.counters.lock().unwrap().iter() {
        rep.count(k, *v);
    }
    let events = shared.events.lock().unwrap();
    rep.count("requests", events.len() as u64);
    let db = env.stub.db.lock().unwrap();
    let owners: String = db.log[log_start.min(db.log.len())..]
        .iter()
        .map(|e| format!("{}:{};", e.cmd, e.username.clone().unwrap_or_default()))
        .collect();
    drop(db);
    rep.distinct("db_command_interleavings", hash_str(&owners));
    let per_user: BTreeSet<usize> = events.iter().map(|e| e.user).collect();
    if per_user.len() >= 2 && events.len() >= 10 {
        rep.nontrivial.insert(hash_str(&format!("{:?}", events.iter().map(|e| (e.user, e.op.clone(), e.status)).collect::<Vec<_>>())));
    }
    if rep.samples.len() < 2 {
        rep.sample(json!({"users": nusers, "history": events.iter().take(40).map(|e| format!("u{} {} -> {}", e.user, e.op, e.status)).collect::<Vec<_>>()}));
    }
    for (s, m, r) in shared.violations.lock().unwrap().iter() {
        let mut r = r.clone();
        r["history_tail"] = json!(events.iter().rev().take(30).rev().map(|e| format!("u{} {} -> {} (model {})", e.user, e.op, e.status, e.expected)).collect::<Vec<_>>());
        rep.violation(s, m.clone(), r);
    }
    for m in shared.inconclusive.lock().unwrap().iter() {
        rep.inconclusive.push(m.clone());
    }
}

/// dedicated probe: account deleted while its parse task is in flight, name re-used by another user
fn late_writeback_probe(env: &Env, rep: &mut Report, run: u64) {
    let name = format!("r{}reuse", run);
    let (pw1, pw2) = (format!("PWtok{:016x}", run * 31 + 1), format!("PWtok{:016x}", run * 31 + 2));
    let m1 = format!("mk{}u0q1", run);
    let m2 = format!("mk{}u1q1", run);
    let replay = json!({"property": "c17", "probe": "late-writeback-after-account-reuse", "run": run});
    let mut u = env.session();
    let mut v = env.session();
    let code1 = format!("s({m}).s(a).ac({m},neg(a)).ac(a,neg({m})).", m = m1);
    let code2 = format!("s({m}).ac({m},c(v)).", m = m2);
    if crate::c16::register_and_login(&mut u, &name, &pw1).is_err() {
        return;
    }
    // database latency for result write-backs only
    env.stub.update_delay_ms.store(400, std::sync::atomic::Ordering::Relaxed);
    let _ = add_problem(&mut u, "p", &code1, "Naive");
    let _ = u.request("DELETE", "/users/delete", Body::None);
    let ok = crate::c16::register_and_login(&mut v, &name, &pw2).is_ok() && add_problem(&mut v, "p", &code2, "Naive").map(|r| r.status == 200).unwrap_or(false);
    let mut seen_foreign = false;
    if ok {
        for _ in 0..600 {
            if let Ok(r) = v.get("/adf/p") {
                if r.text().contains(&m1) {
                    seen_foreign = true;
                    break;
                }
                if let Some(j) = r.json() {
                    if j["acs_per_strategy"]["parse_only"]["type"] == "Some" && j["running_tasks"].as_array().map(|a| a.is_empty()).unwrap_or(false) {
                        // V's own result has arrived; give the late write-back its chance and look again
                        std::thread::sleep(std::time::Duration::from_millis(50));
                    }
                }
            }
            std::thread::sleep(std::time::Duration::from_millis(5));
        }
    }
    env.stub.update_delay_ms.store(0, std::sync::atomic::Ordering::Relaxed);
    rep.count("late_writeback_probes", 1);
    if seen_foreign {
        rep.violation(
            "late-writeback-after-account-reuse",
            "a parse result of a deleted account was written into the problem of the user who re-registered the same account name".into(),
            replay,
        );
    }
    let _ = v.request("DELETE", "/users/delete", Body::None);
}

/// dedicated probe: the name of an account that is being deleted is re-registered while the deletion's
/// second database round trip is still pending; whatever the newcomer stores must survive
fn delete_reuse_probe(env: &Env, rep: &mut Report, run: u64) {
    let name = format!("r{}delreuse", run);
    let (pw1, pw2) = (format!("PWtok{:016x}", run * 37 + 5), format!("PWtok{:016x}", run * 37 + 6));
    let replay = json!({"property": "c17", "probe": "account-name-reused-during-deletion", "run": run});
    let mut u = env.session();
    if crate::c16::register_and_login(&mut u, &name, &pw1).is_err() {
        return;
    }
    for p in ["a", "b"] {
        let _ = add_problem(&mut u, p, &format!("s(mk{}u0q{}).ac(mk{}u0q{},c(v)).", run, p, run, p), "Naive");
    }
    // let the parse tasks finish, so that no background write-back interferes with this probe
    for _ in 0..2000 {
        if let Ok(r) = u.get("/adf/") {
            let busy = r.json().and_then(|j| j.as_array().map(|a| a.iter().any(|p| p["acs_per_strategy"]["parse_only"]["type"] == "None" || p["running_tasks"].as_array().map(|t| !t.is_empty()).unwrap_or(false)))).unwrap_or(false);
            if !busy {
                break;
            }
        }
        std::thread::sleep(std::time::Duration::from_millis(2));
    }
    // slow deletes on both collections: whichever the handler does second stays pending for a while
    env.stub.set_latency("delete", "adf-problems", 400);
    env.stub.set_latency("delete", "users", 400);
    let mut vanished = None;
    std::thread::scope(|sc| {
        let h = sc.spawn(|| {
            let mut u2 = u.clone();
            u2.request("DELETE", "/users/delete", Body::None).map(|r| r.status).unwrap_or(0)
        });
        // the newcomer keeps trying to take the name; as soon as it succeeds it logs in and stores a problem
        let mut v = env.session();
        let mut registered = false;
        for _ in 0..400 {
            if let Ok(r) = v.request("POST", "/users/register", Body::Json(json!({"username": name, "password": pw2}))) {
                if r.status == 200 {
                    registered = true;
                    break;
                }
            }
            std::thread::sleep(std::time::Duration::from_millis(5));
        }
        let mut added = false;
        if registered {
            if let Ok(r) = v.request("POST", "/users/login", Body::Json(json!({"username": name, "password": pw2}))) {
                if r.status == 200 {
                    added = add_problem(&mut v, "mine", &format!("s(mk{}u1q1).ac(mk{}u1q1,c(f)).", run, run), "Naive").map(|r| r.status == 200).unwrap_or(false);
                }
            }
        }
        let _ = h.join();
        // give a pending second delete time to land, then look
        std::thread::sleep(std::time::Duration::from_millis(900));
        if added {
            if let Ok(r) = v.get("/adf/") {
                let names: Vec<String> = r.json().and_then(|j| j.as_array().map(|a| a.iter().filter_map(|p| p["name"].as_str().map(|s| s.to_string())).collect())).unwrap_or_default();
                if !names.contains(&"mine".to_string()) || names.len() != 1 {
                    vanished = Some(format!("the newcomer stored problem \"mine\" (200) but now lists {:?}", names));
                }
            }
        }
        let _ = v.request("DELETE", "/users/delete", Body::None);
    });
    env.stub.set_latency("delete", "adf-problems", 0);
    env.stub.set_latency("delete", "users", 0);
    rep.count("delete_reuse_probes", 1);
    if let Some(msg) = vanished {
        rep.violation("problem-lost-after-name-reuse-during-deletion", msg, replay);
    }
}

pub fn run(cfg: &crate::Cfg, rep: &mut Report) {
    let work = std::path::Path::new(&cfg.work).join("c17");
    let env = match Env::start(&cfg.server, "0-25", &work) {
        Ok(e) => e,
        Err(e) => {
            rep.inconclusive.push(e);
            return;
        }
    };
    env.stub.update_delay_ms.store(0, std::sync::atomic::Ordering::Relaxed);
    let steps = cfg.get_usize("steps", if cfg.thorough { 40 } else { 24 });
    for i in 0..cfg.cases {
        if rep.too_many() || !rep.inconclusive.is_empty() {
            break;
        }
        let case_seed = cfg.case_seed(i);
        let nusers = 2 + (case_seed % 2) as usize;
        let run = cfg.shard * 1_000_000 + i as u64;
        // vary database latency between runs (stretches the windows between a task's end and its write-back)
        env.stub.update_delay_ms.store([0, 0, 3, 12][i % 4], std::sync::atomic::Ordering::Relaxed);
        run_history(&env, rep, run, case_seed, nusers, steps);
    }
    if cfg.shard == 1 && rep.violations.is_empty() {
        delete_reuse_probe(&env, rep, 8_000_000 + cfg.seed);
    }
    if cfg.shard == 0 && rep.violations.is_empty() {
        late_writeback_probe(&env, rep, 9_000_000 + cfg.seed);
    }
    let db = env.stub.db.lock().unwrap();
    for (k, v) in &db.commands_by_kind {
        rep.count(&format!("db.{}", k), *v);
    }
    if !db.unknown_commands.is_empty() {
        rep.inconclusive.push(format!("stub received unknown commands {:?}", db.unknown_commands));
    }
}
