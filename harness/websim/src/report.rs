//! Report format shared with the `mon` binary (merged by the python driver).

use serde_json::{json, Value};
use std::collections::{BTreeMap, BTreeSet};

#[derive(Default, Debug)]
pub struct Report {
    pub evaluations: u64,
    pub nontrivial: BTreeSet<u64>,
    pub counters: BTreeMap<String, u64>,
    pub maxima: BTreeMap<String, u64>,
    pub distinct: BTreeMap<String, BTreeSet<u64>>,
    pub samples: Vec<Value>,
    pub violations: Vec<(String, String, Value)>,
    pub inconclusive: Vec<String>,
}

impl Report {
    pub fn count(&mut self, key: &str, by: u64) {
        *self.counters.entry(key.to_string()).or_insert(0) += by;
    }
    pub fn max(&mut self, key: &str, val: u64) {
        let e = self.maxima.entry(key.to_string()).or_insert(0);
        if val > *e {
            *e = val;
        }
    }
    pub fn distinct(&mut self, key: &str, hash: u64) {
        self.distinct.entry(key.to_string()).or_default().insert(hash);
    }
    pub fn sample(&mut self, v: Value) {
        if self.samples.len() < 4 {
            self.samples.push(v);
        }
    }
    pub fn violation(&mut self, signature: &str, message: String, replay: Value) {
        self.count("violations_total", 1);
        if self.violations.len() < 20 {
            self.violations.push((signature.to_string(), message, replay));
        }
    }
    pub fn too_many(&self) -> bool {
        self.violations.len() >= 20
    }
    pub fn to_json(&self, prop: &str, seed: u64, shard: u64) -> Value {
        json!({
            "property": prop, "seed": seed, "shard": shard,
            "evaluations": self.evaluations,
            "nontrivial": self.nontrivial.iter().map(|h| format!("{:016x}", h)).collect::<Vec<_>>(),
            "counters": self.counters, "maxima": self.maxima,
            "distinct": self.distinct.iter().map(|(k, v)| (k.clone(), v.iter().map(|h| format!("{:016x}", h)).collect::<Vec<_>>())).collect::<BTreeMap<_,_>>(),
            "samples": self.samples,
            "violations": self.violations.iter().map(|(s, m, r)| json!({"signature": s, "message": m, "replay": r})).collect::<Vec<_>>(),
            "inconclusive": self.inconclusive,
        })
    }
}

pub fn hash_str(s: &str) -> u64 {
    oracle::fnv(s.as_bytes())
}
