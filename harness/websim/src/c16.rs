//! C16: the web service returns the library's answers through its storage round trip.

use crate::env::Env;
use crate::http::{enc, Body, Session};
use crate::report::{hash_str, Report};
use oracle::gen::{gen_adf, spell, GenAdf, LabelMode};
use oracle::sem::Sem;
use oracle::{show_vals, Rng, Val, VF, VT, VU};
use serde_json::{json, Value};
use std::collections::{BTreeMap, BTreeSet};

pub const STRATEGIES: [&str; 6] = ["Ground", "Complete", "Stable", "StableCountingA", "StableCountingB", "StableNogood"];

pub fn field_of(strategy: &str) -> &'static str {
    match strategy {
        "Ground" => "ground",
        "Complete" => "complete",
        "Stable" => "stable",
        "StableCountingA" => "stable_counting_a",
        "StableCountingB" => "stable_counting_b",
        "StableNogood" => "stable_nogood",
        _ => "parse_only",
    }
}

pub struct WebCase {
    pub g: GenAdf,
    pub text: String,
    /// definitional answers in oracle order
    pub grounded: Vec<Val>,
    pub complete: Vec<Vec<Val>>,
    pub stable: Vec<Vec<Val>>,
    /// statement labels in declaration order (= the service's variable order)
    pub decl: Vec<String>,
    /// decl position -> oracle index
    pub perm: Vec<usize>,
}

pub fn web_case(rng: &mut Rng, nmax: usize, bio_safe: bool) -> WebCase {
    let n = rng.range(1, nmax);
    let g = gen_adf(rng, n, if bio_safe { LabelMode::BioSafe } else { LabelMode::All });
    let r = g.render(rng, true);
    let sem = Sem::new(&g.ac);
    let decl: Vec<String> = r.decl_order.iter().map(|i| g.labels[*i].clone()).collect();
    let perm = r.decl_order.clone();
    WebCase {
        grounded: sem.grounded(),
        complete: sem.complete(),
        stable: sem.stable(),
        g,
        text: r.text,
        decl,
        perm,
    }
}

/// mid-size code (12 to 30 statements, at most six left undecided by grounding, at most 40 complete models):
/// the definitional answers are found among the refinements of the grounded interpretation (support-bounded operator)
pub fn web_case_mid(rng: &mut Rng) -> WebCase {
    loop {
        let n = rng.range(12, 30);
        let block = rng.range(2, 6);
        let g = oracle::gen::gen_mid(rng, n, block);
        let sem = oracle::sem::BigSem::new(&g.ac);
        let Some(complete) = sem.complete(6) else { continue };
        if complete.len() > 40 {
            continue;
        }
        let r = g.render(rng, true);
        let decl: Vec<String> = r.decl_order.iter().map(|i| g.labels[*i].clone()).collect();
        let perm = r.decl_order.clone();
        return WebCase {
            grounded: sem.grounded_rounds().0,
            complete,
            stable: sem.stable(6).expect("at most six undecided"),
            g,
            text: r.text,
            decl,
            perm,
        };
    }
}

fn ac_vals(ac: &Value) -> Option<Vec<Val>> {
    ac.as_array()?
        .iter()
        .map(|t| {
            t.as_str().map(|s| match s {
                "0" => VF,
                "1" => VT,
                _ => VU,
            })
        })
        .collect()
}

/// library order values -> oracle order
fn to_oracle(v: &[Val], perm: &[usize]) -> Vec<Val> {
    let mut out = vec![VU; perm.len()];
    for (j, x) in v.iter().enumerate() {
        if j < perm.len() {
            out[perm[j]] = *x;
        }
    }
    out
}

/// check one graph against the submitted code. `ac`: root handles (strings) in declaration order
pub fn check_graph(case: &WebCase, ac: &[String], graph: &Value, model: &[Val]) -> Result<u64, String> {
    let labels = graph["node_labels"].as_object().ok_or("graph without node_labels")?;
    let roots_l = graph["tree_root_labels"].as_object().ok_or("graph without tree_root_labels")?;
    let mut lo: BTreeMap<String, String> = BTreeMap::new();
    let mut hi: BTreeMap<String, String> = BTreeMap::new();
    for (name, map) in [("lo_edges", &mut lo), ("hi_edges", &mut hi)] {
        for e in graph[name].as_array().ok_or("graph without edges")? {
            let (f, t) = (e[0].as_str().ok_or("edge")?, e[1].as_str().ok_or("edge")?);
            if map.insert(f.to_string(), t.to_string()).is_some() {
                return Err(format!("node {} has two {} edges", f, name));
            }
        }
    }
    let nodes: BTreeSet<String> = labels.keys().cloned().collect();
    if roots_l.keys().cloned().collect::<BTreeSet<_>>() != nodes {
        return Err("tree_root_labels and node_labels talk about different node sets".into());
    }
    // reachable set from the roots
    let mut reach: BTreeSet<String> = BTreeSet::new();
    let mut todo: Vec<String> = ac.to_vec();
    while let Some(x) = todo.pop() {
        if !reach.insert(x.clone()) {
            continue;
        }
        let l = labels.get(&x).and_then(|v| v.as_str()).ok_or_else(|| format!("node {} reachable from a root is not in the graph", x))?;
        if x == "0" || x == "1" {
            if (x == "0" && l != "BOT") || (x == "1" && l != "TOP") {
                return Err(format!("constant node {} is labelled {}", x, l));
            }
            if lo.contains_key(&x) || hi.contains_key(&x) {
                return Err(format!("constant node {} has outgoing edges", x));
            }
            continue;
        }
        if !case.decl.iter().any(|d| d == l) {
            return Err(format!("inner node {} is labelled {:?}, which is not a statement", x, l));
        }
        let (a, b) = (lo.get(&x), hi.get(&x));
        match (a, b) {
            (Some(a), Some(b)) => {
                todo.push(a.clone());
                todo.push(b.clone());
            }
            _ => return Err(format!("inner node {} lacks a lo or hi edge", x)),
        }
    }
    if reach != nodes {
        return Err(format!("graph has {} nodes but {} are reachable from the roots", nodes.len(), reach.len()));
    }
    for f in lo.keys().chain(hi.keys()) {
        if !nodes.contains(f) {
            return Err(format!("edge from unknown node {}", f));
        }
    }
    // root labels: statement j is named at its root, and nowhere else
    let mut named = 0;
    for (node, l) in roots_l {
        for s in l.as_array().ok_or("root label list")? {
            let s = s.as_str().ok_or("root label")?;
            named += 1;
            let j = case.decl.iter().position(|d| d == s).ok_or_else(|| format!("root label {:?} is not a statement", s))?;
            if ac.get(j) != Some(node) {
                return Err(format!("node {} is labelled as root of {:?} but that statement's root is {:?}", node, s, ac.get(j)));
            }
        }
    }
    if named != case.decl.len() {
        return Err(format!("{} root labels for {} statements", named, case.decl.len()));
    }
    // semantics: for every total assignment extending the shown model, walking from the root of s evaluates ac_s
    // (more than ten statements: 300 sampled assignments that agree with the model, seeded by the graph itself)
    let n = case.decl.len();
    let mut walks = 0u64;
    let exhaustive = n <= 10;
    let mut srng = Rng::new(oracle::fnv(graph.to_string().as_bytes()));
    let total = if exhaustive { 1usize << n } else { 300 };
    for k in 0..total {
        // a is over declaration positions
        let a: usize = if exhaustive {
            k
        } else {
            let mut a = match k {
                0 => 0usize,
                1 => usize::MAX >> 1,
                _ => srng.next_u64() as usize,
            };
            for j in 0..n {
                if model[j] != VU {
                    a = (a & !(1usize << j)) | (((model[j] == VT) as usize) << j);
                }
            }
            a
        };
        if (0..n).any(|j| model[j] != VU && (model[j] == VT) != ((a >> j) & 1 == 1)) {
            continue;
        }
        for j in 0..n {
            let mut x = ac[j].clone();
            let mut steps = 0;
            let got = loop {
                if x == "1" {
                    break true;
                }
                if x == "0" {
                    break false;
                }
                let l = labels[&x].as_str().unwrap();
                let v = case.decl.iter().position(|d| d == l).unwrap();
                x = if (a >> v) & 1 == 1 { hi[&x].clone() } else { lo[&x].clone() };
                steps += 1;
                if steps > nodes.len() + 2 {
                    return Err("cycle in the graph".into());
                }
            };
            let o = case.perm[j];
            let want = case.g.ac[o].eval(&|oi: usize| {
                let pos = case.perm.iter().position(|p| *p == oi).unwrap();
                (a >> pos) & 1 == 1
            });
            walks += 1;
            if got != want {
                return Err(format!(
                    "walking the graph from the root of {:?} gives {} but its condition evaluates to {} (assignment {:b} over declaration order)",
                    case.decl[j], got, want, a
                ));
            }
        }
    }
    Ok(walks)
}

pub struct Observed {
    pub stored: BTreeMap<String, String>,
    pub running: Vec<String>,
}

/// checks on one GET body; returns which results are stored and which tasks run
pub fn check_body(rep: &mut Report, case: &WebCase, body: &Value, expect_error: bool, dups: &BTreeSet<String>) -> Result<Observed, (String, String)> {
    let acs = &body["acs_per_strategy"];
    let mut stored = BTreeMap::new();
    let running: Vec<String> = body["running_tasks"]
        .as_array()
        .ok_or(("body-shape".to_string(), "no running_tasks".to_string()))?
        .iter()
        .map(|t| match t["type"].as_str() {
            Some("Parse") => "Parse".to_string(),
            _ => t["content"].as_str().unwrap_or("?").to_string(),
        })
        .collect();
    if body["code"].as_str() != Some(case.text.as_str()) {
        return Err(("code-differs".into(), "returned code is not the submitted code".into()));
    }
    for (strategy, field) in [("Parse", "parse_only")].into_iter().chain(STRATEGIES.iter().map(|s| (*s, field_of(s)))) {
        let entry = &acs[field];
        let ty = entry["type"].as_str().ok_or(("body-shape".to_string(), format!("{} without type", field)))?;
        if ty == "None" {
            continue;
        }
        stored.insert(strategy.to_string(), ty.to_string());
        // book-keeping: a stored result means the task has ended
        // (not decidable for a strategy that was accepted twice: the second task may legitimately still run)
        if running.iter().any(|r| r == strategy) && !dups.contains(strategy) {
            return Err((
                "task-reported-running-after-end".into(),
                format!("{} has a stored result ({}) but is still listed in running_tasks {:?}", strategy, ty, running),
            ));
        }
        if ty == "Error" {
            if expect_error {
                continue;
            }
            return Err(("error-for-valid-code".into(), format!("{}: {}", field, entry["content"])));
        }
        if expect_error {
            return Err(("answer-for-malformed-code".into(), format!("{} = {}", field, entry)));
        }
        let list = entry["content"].as_array().ok_or(("body-shape".to_string(), format!("{} content", field)))?;
        let mut models: Vec<Vec<Val>> = Vec::new();
        for item in list {
            let acv: Vec<String> = item["ac"].as_array().map(|a| a.iter().filter_map(|x| x.as_str().map(|s| s.to_string())).collect()).unwrap_or_default();
            if acv.len() != case.decl.len() {
                return Err(("body-shape".into(), format!("{}: {} handles for {} statements", field, acv.len(), case.decl.len())));
            }
            let vals = ac_vals(&item["ac"]).unwrap();
            let model_for_graph: Vec<Val> = if strategy == "Parse" { vec![VU; case.decl.len()] } else { vals.clone() };
            match check_graph(case, &acv, &item["graph"], &model_for_graph) {
                Ok(w) => {
                    rep.count("graphs_checked", 1);
                    rep.count("graph_walks", w);
                }
                Err(e) => return Err((format!("graph-unfaithful:{}", strategy), format!("{}: {}", field, e))),
            }
            models.push(to_oracle(&vals, &case.perm));
        }
        if strategy == "Parse" {
            if list.len() != 1 {
                return Err(("parse-result-shape".into(), format!("parse_only holds {} entries", list.len())));
            }
            continue;
        }
        let mut want: Vec<Vec<Val>> = match strategy {
            "Ground" => vec![case.grounded.clone()],
            "Complete" => case.complete.clone(),
            _ => case.stable.clone(),
        };
        rep.count("model_sets_compared", 1);
        rep.count(&format!("strategy.{}", strategy), 1);
        if strategy == "Complete" && models.first() != Some(&case.grounded) {
            return Err(("complete-first-not-grounded".into(), format!("{:?}", models.first().map(|m| show_vals(m)))));
        }
        let mut got = models.clone();
        got.sort();
        want.sort();
        if got != want {
            return Err((
                format!("stored-models-differ:{}", strategy),
                format!(
                    "{}: stored {:?}, definition {:?}",
                    strategy,
                    got.iter().map(|m| show_vals(m)).collect::<Vec<_>>(),
                    want.iter().map(|m| show_vals(m)).collect::<Vec<_>>()
                ),
            ));
        }
    }
    Ok(Observed { stored, running })
}

pub fn register_and_login(s: &mut Session, user: &str, pw: &str) -> Result<(), String> {
    let r = s.request("POST", "/users/register", Body::Json(json!({"username": user, "password": pw})))?;
    if r.status != 200 {
        return Err(format!("register -> {} {}", r.status, r.text()));
    }
    let r = s.request("POST", "/users/login", Body::Json(json!({"username": user, "password": pw})))?;
    if r.status != 200 {
        return Err(format!("login -> {} {}", r.status, r.text()));
    }
    Ok(())
}

pub fn add_problem(s: &mut Session, name: &str, code: &str, parsing: &str) -> Result<crate::http::Response, String> {
    s.request(
        "POST",
        "/adf/add",
        Body::Form(vec![("name".into(), name.into()), ("code".into(), code.into()), ("parsing".into(), parsing.into())]),
    )
}

pub fn solve(s: &mut Session, name: &str, strategy: &str) -> Result<crate::http::Response, String> {
    s.request("PUT", &format!("/adf/{}/solve", enc(name)), Body::Json(json!({"strategy": strategy})))
}

pub struct C16Cfg {
    pub nmax: usize,
    /// every k-th case submits a mid-size code (0: never)
    pub mid_every: u64,
    pub delayed: bool,
}

pub fn c16_case(env: &mut Env, rep: &mut Report, case_seed: u64, cfg: &C16Cfg) {
    let before = rep.violations.len();
    let _ = crate::http::trail_take();
    c16_case_inner(env, rep, case_seed, cfg);
    let trail = crate::http::trail_take();
    if rep.violations.len() > before {
        // the witness is the history, not its last response
        let n = trail.len();
        let shown: Vec<String> = trail.into_iter().skip(n.saturating_sub(60)).collect();
        if let Some(v) = rep.violations.last_mut() {
            if let Some(o) = v.2.as_object_mut() {
                o.insert("history_tail".into(), json!(shown));
            }
        }
    }
}

fn c16_case_inner(env: &mut Env, rep: &mut Report, case_seed: u64, cfg: &C16Cfg) {
    let mut rng = Rng::new(case_seed);
    let parsing = if rng.bool() { "Naive" } else { "Hybrid" };
    let negative = rng.chance(1, 6);
    let mid = cfg.mid_every > 0 && case_seed % cfg.mid_every == 0;
    let mut case = if mid { web_case_mid(&mut rng) } else { web_case(&mut rng, cfg.nmax, true) };
    if mid {
        rep.count("mid_size_codes", 1);
        rep.max("max_statements_in_a_submitted_code", case.g.n as u64);
    }
    let mut class = "valid";
    if negative {
        let l = |i: usize| spell(&case.g.labels[i], false);
        let a = rng.below(case.g.n);
        let (c, t) = match rng.below(5) {
            0 => ("trailing-garbage", format!("{}x", case.text)),
            1 => ("arity", format!("{}ac({},and({})).", case.text, l(a), l(a))),
            2 => ("undeclared-in-body", format!("{}ac({},UNDECLAREDx9).", case.text, l(a))),
            3 => ("undeclared-head", format!("{}ac(UNDECLAREDx9,{}).", case.text, l(a))),
            _ => {
                let mut t = case.text.clone();
                if let Some(p) = t.rfind(')') {
                    t.remove(p);
                }
                ("delete-bracket", t)
            }
        };
        if oracle::grammar::recognise(&t).is_ok() && !c.starts_with("undeclared") {
            return;
        }
        class = c;
        case.text = t;
    }
    rep.evaluations += 1;
    let user = format!("u{}x{}", case_seed % 1_000_000_007, rng.below(1000));
    let pw = format!("pw-{}", rng.next_u64());
    let name = format!("prob {}", rng.below(100000));
    let replay = json!({"property": "c16", "case_seed": case_seed.to_string(), "code": case.text, "parsing": parsing, "class": class, "delayed": cfg.delayed});
    let mut s = env.session();
    let temp_user = rng.chance(1, 5);
    if !temp_user {
        if let Err(e) = register_and_login(&mut s, &user, &pw) {
            rep.violation("c16-setup", e, replay);
            return;
        }
    }
    match add_problem(&mut s, &name, &case.text, parsing) {
        Ok(r) if r.status == 200 => {}
        Ok(r) => {
            rep.violation("add-rejected", format!("POST /adf/add -> {} {}", r.status, r.text()), replay);
            return;
        }
        Err(e) => {
            rep.inconclusive.push(e);
            return;
        }
    }
    rep.count(&format!("parsing.{}", parsing), 1);
    rep.count(&format!("class.{}", class), 1);
    let path = format!("/adf/{}", enc(&name));
    // optionally try to solve before parsing has finished (either outcome is legal, but must be coherent)
    let mut requested: BTreeSet<String> = BTreeSet::new();
    if rng.chance(1, 3) {
        let st = *rng.pick(&STRATEGIES);
        match solve(&mut s, &name, st) {
            Ok(r) => {
                rep.count(&format!("early_solve_status_{}", r.status), 1);
                match r.status {
                    200 => {
                        requested.insert(st.to_string());
                    }
                    400 | 409 => {}
                    other => {
                        rep.violation("early-solve-status", format!("solve before parse -> {} {}", other, r.text()), replay);
                        return;
                    }
                }
            }
            Err(e) => {
                // nothing is known about what the request did: the case cannot be judged
                rep.inconclusive.push(e);
                return;
            }
        }
    }
    let mut saw_running = false;
    let mut dups: BTreeSet<String> = BTreeSet::new();
    let mut polls = 0u64;
    let mut ended_unstored: BTreeMap<String, (u64, std::time::Instant)> = BTreeMap::new();
    let mut order: Vec<&str> = STRATEGIES.to_vec();
    rng.shuffle(&mut order);
    let mut next = 0;
    let mut parse_done = false;
    // a solve request whose client vanished (connection reset while the service was looking the problem up):
    // it may or may not have taken effect
    let mut abort_at: Option<usize> = if !negative && rng.chance(1, 4) { Some(rng.below(STRATEGIES.len())) } else { None };
    let mut maybe_requested: BTreeSet<String> = BTreeSet::new();
    // since when (and for how many polls) each task has been reported as running without interruption
    let mut running_since: BTreeMap<String, (std::time::Instant, u64)> = BTreeMap::new();
    loop {
        polls += 1;
        // every third poll goes through the list endpoint; the entry of this problem is judged the same way
        let via_list = polls % 3 == 0;
        let r = match s.get(if via_list { "/adf/" } else { &path }) {
            Ok(r) => r,
            Err(e) => {
                rep.inconclusive.push(format!("GET failed: {} (server alive: {}; {})", e, env.alive(), env.server_log_tail()));
                return;
            }
        };
        rep.count("gets", 1);
        if r.status != 200 {
            rep.violation("get-status", format!("GET {} -> {} {}", path, r.status, r.text()), replay);
            return;
        }
        let Some(mut body) = r.json() else {
            rep.violation("get-body-not-json", r.text().chars().take(200).collect(), replay);
            return;
        };
        if via_list {
            rep.count("list_polls", 1);
            let entry = body.as_array().and_then(|a| a.iter().find(|p| p["name"].as_str() == Some(name.as_str())).cloned());
            match entry {
                Some(e) => body = e,
                None => {
                    rep.violation("problem-missing-from-list", format!("GET /adf/ does not list {:?}", name), replay);
                    return;
                }
            }
        }
        let obs = match check_body(rep, &case, &body, negative, &dups) {
            Ok(o) => o,
            Err((sig, msg)) => {
                rep.violation(&sig, msg, replay);
                return;
            }
        };
        if !obs.running.is_empty() {
            saw_running = true;
            rep.count("responses_with_running_tasks", 1);
        }
        // "a task that has ended is not reported as still running", judged by progress and never by a deadline:
        // when a task has been listed for 20 s and 500 polls, polling pauses for 5 s; if in that window the server
        // process neither uses CPU time nor has a runnable thread (injected delays and stub latencies are below
        // 0.5 s), nothing is being computed, so a task still listed afterwards has ended (or never existed)
        running_since.retain(|t, _| obs.running.contains(t));
        for t in &obs.running {
            running_since.entry(t.clone()).or_insert((std::time::Instant::now(), 0)).1 += 1;
        }
        let stale: Vec<String> = running_since.iter().filter(|(_, (since, n))| since.elapsed().as_secs() >= 20 && *n >= 500).map(|(t, _)| t.clone()).collect();
        if !stale.is_empty() {
            rep.count("idle_server_probes", 1);
            if server_idle_for(env.server.id(), 5000) {
                let again = s.get(&path).ok().and_then(|r| r.json());
                let still: Vec<String> = again
                    .as_ref()
                    .and_then(|b| b["running_tasks"].as_array())
                    .map(|a| a.iter().map(|t| if t["type"].as_str() == Some("Parse") { "Parse".to_string() } else { t["content"].as_str().unwrap_or("?").to_string() }).collect())
                    .unwrap_or_default();
                let ghosts: Vec<&String> = stale.iter().filter(|t| still.contains(t)).collect();
                if !ghosts.is_empty() {
                    rep.violation(
                        "task-reported-running-while-server-idle",
                        format!("{:?} reported as running for more than 20 s although the server process used no CPU time and had no runnable thread for 5 s (aborted request in this case: {:?})", ghosts, maybe_requested),
                        replay,
                    );
                    return;
                }
            }
            for t in &stale {
                running_since.remove(t);
            }
        }
        // bounded progress: a task that is neither running nor stored must get stored soon
        let mut expected: Vec<String> = requested.iter().cloned().collect();
        expected.push("Parse".into());
        for t in &expected {
            if obs.stored.contains_key(t) {
                ended_unstored.remove(t);
            } else if !obs.running.contains(t) {
                // logical condition (ended, nothing left to compute, yet nothing stored) observed on >= 1500
                // consecutive polls AND for >= 30 s, so that a starved server on a loaded machine is not blamed
                let c = ended_unstored.entry(t.clone()).or_insert((0, std::time::Instant::now()));
                c.0 += 1;
                if c.0 > 1500 && c.1.elapsed() > std::time::Duration::from_secs(30) {
                    rep.violation(
                        "result-never-stored",
                        format!("{} is not running any more but no result was stored after {} further polls / {:?}", t, c.0, c.1.elapsed()),
                        replay,
                    );
                    return;
                }
            }
        }
        if !parse_done && obs.stored.contains_key("Parse") {
            parse_done = true;
            if negative {
                // the problem must be unusable
                for st in [*rng.pick(&STRATEGIES)] {
                    match solve(&mut s, &name, st) {
                        Ok(r) if r.status == 400 => rep.count("solve_on_unparseable_rejected", 1),
                        Ok(r) => {
                            rep.violation("solve-accepted-for-malformed-code", format!("{} {}", r.status, r.text()), replay);
                            return;
                        }
                        Err(e) => rep.inconclusive.push(e),
                    }
                }
            }
        }
        if parse_done && !negative && next < order.len() {
            // issue the next solve, sometimes twice
            let st = order[next];
            if abort_at == Some(next) {
                abort_at = None;
                // the lookup of the problem is slow, the client resets the connection in the middle of it
                env.stub.set_latency("find", "adf-problems", 250);
                let r = s.request_and_reset("PUT", &format!("/adf/{}/solve", enc(&name)), Body::Json(json!({"strategy": st})), 60);
                std::thread::sleep(std::time::Duration::from_millis(rng.below(300) as u64));
                env.stub.set_latency("find", "adf-problems", if cfg.delayed { 8 } else { 0 });
                match r {
                    Ok(()) => {
                        rep.count("solve_requests_reset_by_the_client", 1);
                        maybe_requested.insert(st.to_string());
                    }
                    Err(e) => rep.inconclusive.push(e),
                }
                continue;
            }
            next += 1;
            match solve(&mut s, &name, st) {
                Ok(r) => match r.status {
                    200 => {
                        if !requested.insert(st.to_string()) {
                            // the solve sent before the first poll was accepted too; its task had not registered
                            // itself yet, or had ended but its result was not stored yet (seen: GET lists it as
                            // running, PUT solve -> 200, GET shows the result of the first task while the second
                            // runs): an accepted duplicate like the ones below, two tasks
                            rep.count("solve_accepted_again_after_accepted_early_solve", 1);
                            dups.insert(st.to_string());
                        }
                        if maybe_requested.contains(st) {
                            // the reset request may have been carried out as well: possibly two tasks
                            dups.insert(st.to_string());
                        }
                    }
                    409 if requested.contains(st) => {}
                    409 if maybe_requested.contains(st) => {
                        // the reset request was carried out (running or already stored): its result is due
                        rep.count("reset_solve_requests_that_took_effect", 1);
                        requested.insert(st.to_string());
                    }
                    other => {
                        rep.violation("solve-status", format!("solve {} -> {} {}", st, other, r.text()), replay);
                        return;
                    }
                },
                Err(e) => {
                    rep.inconclusive.push(e);
                    return;
                }
            }
            if rng.chance(1, 3) {
                // the duplicate check of the service is best effort (a task registers itself only once it
                // runs), so both outcomes are legal; an accepted duplicate switches off the per-task
                // book-keeping check for this strategy
                match solve(&mut s, &name, st) {
                    Ok(r) if r.status == 409 => rep.count("repeated_solve_conflicts", 1),
                    Ok(r) if r.status == 200 => {
                        rep.count("repeated_solve_accepted", 1);
                        dups.insert(st.to_string());
                    }
                    Ok(r) => {
                        rep.violation("repeated-solve-status", format!("second solve {} -> {} {}", st, r.status, r.text()), replay);
                        return;
                    }
                    Err(e) => rep.inconclusive.push(e),
                }
            }
            continue;
        }
        let all_stored = if negative {
            parse_done
        } else {
            parse_done && STRATEGIES.iter().all(|st| obs.stored.contains_key(*st))
        };
        if all_stored {
            if obs.running.is_empty() {
                break;
            }
            if obs.running.iter().all(|t| dups.contains(t)) {
                // only duplicates of accepted double solves are left; wait for them
                if polls > 20_000 {
                    rep.inconclusive.push("poll bound reached waiting for duplicate tasks".into());
                    return;
                }
                std::thread::sleep(std::time::Duration::from_millis(2));
                continue;
            }
            // every result is stored, so nothing may be listed as running (checked per task in check_body);
            // anything else listed here is a task that was never started
            rep.violation("unknown-task-running", format!("{:?}", obs.running), replay);
            return;
        }
        if polls > 60_000 {
            rep.inconclusive.push(format!("poll bound reached with tasks still running: {:?}", obs.running));
            return;
        }
        std::thread::sleep(std::time::Duration::from_millis(2));
    }
    // the same name again with another code: must be refused, and the stored problem must stay what it is
    if !negative && rng.chance(1, 3) {
        let other = web_case(&mut rng, 3, true);
        match add_problem(&mut s, &name, &other.text, parsing) {
            Ok(r) if r.status == 409 => rep.count("duplicate_names_refused", 1),
            Ok(r) => {
                rep.violation("duplicate-name-accepted", format!("second POST /adf/add with the same name -> {} {}", r.status, r.text()), replay);
                return;
            }
            Err(e) => rep.inconclusive.push(e),
        }
        for _ in 0..5 {
            let Ok(r) = s.get(&path) else { break };
            let Some(body) = r.json() else { break };
            if let Err((sig, msg)) = check_body(rep, &case, &body, false, &dups) {
                rep.violation(&sig, format!("(after a refused duplicate add) {}", msg), replay);
                return;
            }
            std::thread::sleep(std::time::Duration::from_millis(3));
        }
    }
    // a sibling problem of the same user: its tasks must never show up in this problem's running_tasks
    if !negative && rng.chance(1, 2) {
        let sibling = format!("sibling {}", rng.below(100000));
        let scase = web_case(&mut rng, 3, true);
        if let Ok(r) = add_problem(&mut s, &sibling, &scase.text, "Naive") {
            if r.status == 200 {
                rep.count("sibling_problems", 1);
                let mut sibling_solved = false;
                for k in 0..60 {
                    let Ok(r) = s.get(&path) else { break };
                    let Some(body) = r.json() else { break };
                    match check_body(rep, &case, &body, false, &dups) {
                        Ok(obs) => {
                            if !obs.running.is_empty() && obs.running.iter().any(|t| !dups.contains(t)) {
                                rep.violation(
                                    "task-of-another-problem-reported",
                                    format!("all results of the problem are stored, yet it lists {:?} while a sibling problem of the same user is busy", obs.running),
                                    replay,
                                );
                                return;
                            }
                        }
                        Err((sig, msg)) => {
                            rep.violation(&sig, format!("(while a sibling problem is busy) {}", msg), replay);
                            return;
                        }
                    }
                    rep.count("gets_while_sibling_busy", 1);
                    // once the sibling is parsed, keep it busy with solves
                    if let Ok(sr) = s.get(&format!("/adf/{}", enc(&sibling))) {
                        if let Some(sb) = sr.json() {
                            let parsed = sb["acs_per_strategy"]["parse_only"]["type"] == "Some";
                            let idle = sb["running_tasks"].as_array().map(|a| a.is_empty()).unwrap_or(true);
                            if parsed && idle {
                                if sibling_solved && k > 20 {
                                    break;
                                }
                                let _ = solve(&mut s, &sibling, STRATEGIES[k % 6]);
                                sibling_solved = true;
                            }
                        }
                    }
                    std::thread::sleep(std::time::Duration::from_millis(2));
                }
            }
        }
    }
    rep.max("max_polls", polls);
    if cfg.delayed {
        if saw_running {
            rep.count("delayed_cases_that_saw_running_tasks", 1);
        } else {
            rep.count("delayed_cases_without_running_observation", 1);
        }
    }
    if negative || case.complete.len() >= 2 {
        rep.nontrivial.insert(hash_str(&case.text));
    }
    if rep.samples.len() < 3 {
        rep.sample(json!({"code": case.text, "parsing": parsing, "class": class, "polls": polls}));
    }
    // clean up through the API
    if rng.chance(1, 2) {
        if let Ok(r) = s.request("DELETE", &path, Body::None) {
            if r.status != 200 {
                rep.violation("delete-status", format!("{} {}", r.status, r.text()), replay);
            }
        }
    }
}


/// true if, over `ms` milliseconds, the process used (almost) no CPU time and all of its threads were asleep at
/// (almost) every sample: no computation is going on in it
pub fn server_idle_for(pid: u32, ms: u64) -> bool {
    fn sample(pid: u32) -> Option<(u64, bool)> {
        let stat = std::fs::read_to_string(format!("/proc/{}/stat", pid)).ok()?;
        let rest = &stat[stat.rfind(')')? + 2..];
        let f: Vec<&str> = rest.split(' ').collect();
        let cpu = f.get(11)?.parse::<u64>().ok()? + f.get(12)?.parse::<u64>().ok()?;
        let mut all_sleeping = true;
        for t in std::fs::read_dir(format!("/proc/{}/task", pid)).ok()? {
            let t = t.ok()?;
            let ts = std::fs::read_to_string(t.path().join("stat")).unwrap_or_default();
            if let Some(p) = ts.rfind(')') {
                if ts[p + 2..].chars().next().unwrap_or('?') != 'S' {
                    all_sleeping = false;
                }
            }
        }
        Some((cpu, all_sleeping))
    }
    let Some((cpu0, _)) = sample(pid) else { return false };
    let (mut samples, mut asleep) = (0u64, 0u64);
    let t0 = std::time::Instant::now();
    while (t0.elapsed().as_millis() as u64) < ms {
        std::thread::sleep(std::time::Duration::from_millis(50));
        match sample(pid) {
            Some((_, a)) => {
                samples += 1;
                asleep += a as u64;
            }
            None => return false,
        }
    }
    let Some((cpu1, _)) = sample(pid) else { return false };
    // (clock ticks of 10 ms: at most 50 ms of CPU time in the window, asleep at 95% of the samples)
    cpu1.saturating_sub(cpu0) <= 5 && samples >= 20 && asleep * 100 >= samples * 95
}
