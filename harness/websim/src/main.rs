//! Web-service monitors (C16, C17): real server process + in-process MongoDB stub + HTTP histories.
//! `websim <c16|c17> --server BIN [--seed S] [--shard I] [--cases N] [--thorough] [--out FILE] [--work DIR]`
//! The process isolates itself in a private network namespace (the server binds 0.0.0.0:8080).

mod c16;
mod c17;
mod env;
mod http;
mod mongo;
mod report;

use report::Report;
use std::collections::BTreeMap;
use std::os::unix::process::CommandExt;

pub struct Cfg {
    pub prop: String,
    pub seed: u64,
    pub shard: u64,
    pub cases: usize,
    pub thorough: bool,
    pub out: Option<String>,
    pub server: String,
    pub work: String,
    pub extra: BTreeMap<String, String>,
}

impl Cfg {
    pub fn case_seed(&self, i: usize) -> u64 {
        let mut r = oracle::Rng::new(self.seed.wrapping_mul(1_000_003).wrapping_add(self.shard));
        r.next_u64() ^ (i as u64).wrapping_mul(0x9E3779B97F4A7C15)
    }
    pub fn get_usize(&self, key: &str, default: usize) -> usize {
        self.extra.get(key).and_then(|v| v.parse().ok()).unwrap_or(default)
    }
}

fn isolate() {
    if std::env::var("WEBSIM_ISOLATED").is_ok() {
        return;
    }
    let exe = std::env::current_exe().expect("own path");
    let args: Vec<String> = std::env::args().skip(1).collect();
    // private network namespace with loopback up; falls through (returns) only if exec fails
    let probe = std::process::Command::new("unshare").args(["-n", "--", "true"]).status();
    if matches!(probe, Ok(s) if s.success()) {
        let err = std::process::Command::new("unshare")
            .args(["-n", "--", "sh", "-c", "ip link set lo up && exec \"$0\" \"$@\""])
            .arg(exe)
            .args(&args)
            .env("WEBSIM_ISOLATED", "netns")
            .exec();
        eprintln!("exec under unshare failed: {}", err);
    }
    // fallback: serialise on a lock file and use the host's port 8080
    let lock = std::fs::OpenOptions::new().create(true).write(true).truncate(false).open("/verif/.cache/port8080.lock");
    if let Ok(f) = lock {
        use std::os::fd::AsRawFd;
        extern "C" {
            fn flock(fd: i32, op: i32) -> i32;
        }
        unsafe {
            flock(f.as_raw_fd(), 2);
        }
        std::mem::forget(f);
    }
    std::env::set_var("WEBSIM_ISOLATED", "lock");
}

fn main() {
    isolate();
    let args: Vec<String> = std::env::args().collect();
    if args.len() < 2 {
        eprintln!("usage: websim <c16|c17> --server BIN ...");
        std::process::exit(64);
    }
    let mut cfg = Cfg {
        prop: args[1].to_lowercase(),
        seed: 1,
        shard: 0,
        cases: 10,
        thorough: false,
        out: None,
        server: String::new(),
        work: format!("/verif/.cache/run/websim-{}", std::process::id()),
        extra: BTreeMap::new(),
    };
    let mut i = 2;
    while i < args.len() {
        let val = args.get(i + 1).cloned().unwrap_or_default();
        match args[i].as_str() {
            "--seed" => cfg.seed = val.parse().unwrap_or(1),
            "--shard" => cfg.shard = val.parse().unwrap_or(0),
            "--cases" => cfg.cases = val.parse().unwrap_or(10),
            "--out" => cfg.out = Some(val),
            "--server" => cfg.server = val,
            "--work" => cfg.work = val,
            "--thorough" => {
                cfg.thorough = true;
                i += 1;
                continue;
            }
            k if k.starts_with("--") => {
                cfg.extra.insert(k.trim_start_matches("--").to_string(), val);
            }
            _ => {}
        }
        i += 2;
    }
    let mut rep = Report::default();
    // the logging environment of the server process of this shard (see env.rs)
    let rust_log = cfg.extra.get("server_rust_log").cloned().unwrap_or_else(|| ["unset", "info", "warn", "debug"][((cfg.seed + cfg.shard) % 4) as usize].to_string());
    std::env::set_var("VERIF_SERVER_RUST_LOG", &rust_log);
    rep.count(&format!("server_processes_with_RUST_LOG_{}", rust_log), 1);
    match cfg.prop.as_str() {
        "c16" => run_c16(&cfg, &mut rep),
        "c17" => c17::run(&cfg, &mut rep),
        other => {
            eprintln!("unknown property {}", other);
            std::process::exit(64);
        }
    }
    rep.count("transport.requests_resent_after_actix_slow_request_408", http::TRANSPORT_408_RESENDS.load(std::sync::atomic::Ordering::Relaxed));
    let out = serde_json::to_string(&rep.to_json(&cfg.prop, cfg.seed, cfg.shard)).unwrap();
    match &cfg.out {
        Some(p) => std::fs::write(p, out).expect("write report"),
        None => println!("{}", out),
    }
    let _ = std::fs::remove_dir_all(&cfg.work);
    if !rep.violations.is_empty() {
        std::process::exit(1);
    }
    if !rep.inconclusive.is_empty() {
        std::process::exit(2);
    }
}

fn run_c16(cfg: &Cfg, rep: &mut Report) {
    let nmax = cfg.get_usize("nmax", if cfg.thorough { 6 } else { 5 });
    // two phases: without and with injected task delays (hook H7)
    for (phase, delay) in [("plain", "0"), ("delayed", "15-60")] {
        let work = std::path::Path::new(&cfg.work).join(phase);
        let mut env = match env::Env::start(&cfg.server, delay, &work) {
            Ok(e) => e,
            Err(e) => {
                rep.inconclusive.push(e);
                return;
            }
        };
        if phase == "delayed" {
            env.stub.update_delay_ms.store(10, std::sync::atomic::Ordering::Relaxed);
            // reads take a while too: widens the window between a handler's own book-keeping and the data it reads
            env.stub.set_latency("find", "adf-problems", 8);
        }
        let ccfg = c16::C16Cfg { nmax, delayed: phase == "delayed", mid_every: cfg.get_usize("mid_every", 5) as u64 };
        let n = if phase == "plain" { cfg.cases } else { (cfg.cases / 3).max(2) };
        for i in 0..n {
            if rep.too_many() || !rep.inconclusive.is_empty() {
                break;
            }
            let seed = cfg.case_seed(i + if phase == "plain" { 0 } else { 100_000 });
            c16::c16_case(&mut env, rep, seed, &ccfg);
        }
        let db = env.stub.db.lock().unwrap();
        for (k, v) in &db.commands_by_kind {
            rep.count(&format!("db.{}", k), *v);
        }
        if !db.unknown_commands.is_empty() {
            rep.inconclusive.push(format!("stub received unknown commands {:?}", db.unknown_commands));
        }
        drop(db);
        env.stop();
    }
    if rep.counters.get("delayed_cases_that_saw_running_tasks").copied().unwrap_or(0) == 0 && rep.violations.is_empty() {
        rep.inconclusive.push("no response ever listed a running task although delays were injected".into());
    }
}
