fn main(){}
