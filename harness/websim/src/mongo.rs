//! In-process MongoDB wire-protocol stub (OP_MSG, plus legacy OP_QUERY for handshakes).
//! Implements exactly the commands the web service issues; the database lives behind one mutex
//! that the monitors use as well, so audits see a consistent state.

use bson::{doc, Bson, Document};
use std::collections::BTreeMap;
use std::io::{Read, Write};
use std::net::{TcpListener, TcpStream};
use std::sync::atomic::{AtomicU64, Ordering};
use std::sync::{Arc, Mutex};

#[derive(Default)]
pub struct Db {
    /// documents per namespace `<database>.<collection>`
    pub collections: BTreeMap<String, Vec<Document>>,
    /// unique single-field indexes that were really created: (namespace, field)
    pub unique_indexes: std::collections::BTreeSet<(String, String)>,
    pub log: Vec<LogEntry>,
    pub seq: u64,
    /// secrets that must never travel to the database (plain passwords)
    pub secrets: Vec<String>,
    pub leaks: Vec<String>,
    pub commands_by_kind: BTreeMap<String, u64>,
    pub bytes_in: u64,
    pub unknown_commands: Vec<String>,
    pub next_oid: u64,
}

#[derive(Clone, Debug)]
pub struct LogEntry {
    pub seq: u64,
    pub cmd: String,
    pub coll: String,
    /// username mentioned in the filter or document, if any
    pub username: Option<String>,
    pub name: Option<String>,
}

pub struct Stub {
    pub db: Arc<Mutex<Db>>,
    pub port: u16,
    /// artificial latency (ms) of `update` commands on the problem collection
    pub update_delay_ms: Arc<AtomicU64>,
    /// artificial latency (ms) per (command, collection), e.g. ("find", "adf-problems"); applied before the
    /// command is executed, like a slow database would
    pub latency: Arc<Mutex<BTreeMap<(String, String), u64>>>,
}

impl Stub {
    pub fn start() -> std::io::Result<Stub> {
        let listener = TcpListener::bind(("127.0.0.1", 0))?;
        let port = listener.local_addr()?.port();
        let db = Arc::new(Mutex::new(Db::default()));
        let delay = Arc::new(AtomicU64::new(0));
        let latency: Arc<Mutex<BTreeMap<(String, String), u64>>> = Arc::new(Mutex::new(BTreeMap::new()));
        let latency2 = latency.clone();
        let db2 = db.clone();
        let delay2 = delay.clone();
        std::thread::spawn(move || {
            for conn in listener.incoming() {
                match conn {
                    Ok(stream) => {
                        let db3 = db2.clone();
                        let d3 = delay2.clone();
                        let l3 = latency2.clone();
                        std::thread::spawn(move || {
                            let _ = serve(stream, db3, d3, l3);
                        });
                    }
                    Err(_) => break,
                }
            }
        });
        Ok(Stub {
            db,
            port,
            update_delay_ms: delay,
            latency,
        })
    }

    pub fn uri(&self) -> String {
        format!("mongodb://127.0.0.1:{}/?directConnection=true&serverSelectionTimeoutMS=5000", self.port)
    }

    pub fn set_latency(&self, cmd: &str, coll: &str, ms: u64) {
        let mut l = self.latency.lock().unwrap();
        if ms == 0 {
            l.remove(&(cmd.to_string(), coll.to_string()));
        } else {
            l.insert((cmd.to_string(), coll.to_string()), ms);
        }
    }

    pub fn add_secret(&self, s: &str) {
        self.db.lock().unwrap().secrets.push(s.to_string());
    }

    pub fn users(&self) -> Vec<Document> {
        self.db.lock().unwrap().collections.get("adf-obdd.users").cloned().unwrap_or_default()
    }

    pub fn problems(&self) -> Vec<Document> {
        self.db.lock().unwrap().collections.get("adf-obdd.adf-problems").cloned().unwrap_or_default()
    }
}

fn read_exact(s: &mut TcpStream, n: usize) -> std::io::Result<Vec<u8>> {
    let mut buf = vec![0u8; n];
    s.read_exact(&mut buf)?;
    Ok(buf)
}

fn i32_at(b: &[u8], p: usize) -> i32 {
    i32::from_le_bytes([b[p], b[p + 1], b[p + 2], b[p + 3]])
}

fn serve(mut s: TcpStream, db: Arc<Mutex<Db>>, delay: Arc<AtomicU64>, latency: Arc<Mutex<BTreeMap<(String, String), u64>>>) -> std::io::Result<()> {
    s.set_nodelay(true).ok();
    loop {
        let head = read_exact(&mut s, 16)?;
        let len = i32_at(&head, 0) as usize;
        let request_id = i32_at(&head, 4);
        let opcode = i32_at(&head, 12);
        if !(16..=64 * 1024 * 1024).contains(&len) {
            return Ok(());
        }
        let body = read_exact(&mut s, len - 16)?;
        match opcode {
            2013 => {
                let flags = u32::from_le_bytes([body[0], body[1], body[2], body[3]]);
                let end = if flags & 1 == 1 { body.len() - 4 } else { body.len() };
                let mut p = 4;
                let mut cmd: Option<Document> = None;
                let mut seqs: Vec<(String, Vec<Document>)> = Vec::new();
                while p < end {
                    let kind = body[p];
                    p += 1;
                    if kind == 0 {
                        let l = i32_at(&body, p) as usize;
                        let d = Document::from_reader(&mut &body[p..p + l]).map_err(|e| std::io::Error::new(std::io::ErrorKind::InvalidData, e))?;
                        cmd = Some(d);
                        p += l;
                    } else {
                        let size = i32_at(&body, p) as usize;
                        let sec_end = p + size;
                        let mut q = p + 4;
                        let z = body[q..].iter().position(|b| *b == 0).unwrap_or(0);
                        let ident = String::from_utf8_lossy(&body[q..q + z]).to_string();
                        q += z + 1;
                        let mut docs = Vec::new();
                        while q < sec_end {
                            let l = i32_at(&body, q) as usize;
                            let d = Document::from_reader(&mut &body[q..q + l]).map_err(|e| std::io::Error::new(std::io::ErrorKind::InvalidData, e))?;
                            docs.push(d);
                            q += l;
                        }
                        seqs.push((ident, docs));
                        p = sec_end;
                    }
                }
                let Some(mut cmd) = cmd else { return Ok(()) };
                for (ident, docs) in seqs {
                    cmd.insert(ident, Bson::Array(docs.into_iter().map(Bson::Document).collect()));
                }
                let is_problem_update = cmd.keys().next().map(|k| k == "update").unwrap_or(false)
                    && cmd.get_str("update").map(|c| c == "adf-problems").unwrap_or(false);
                if is_problem_update {
                    let ms = delay.load(Ordering::Relaxed);
                    if ms > 0 {
                        std::thread::sleep(std::time::Duration::from_millis(ms));
                    }
                }
                if let Some((name, first)) = cmd.iter().next() {
                    let key = (name.to_lowercase(), first.as_str().unwrap_or("").to_string());
                    let ms = latency.lock().unwrap().get(&key).copied().unwrap_or(0);
                    if ms > 0 {
                        std::thread::sleep(std::time::Duration::from_millis(ms));
                    }
                }
                let reply = {
                    let mut g = db.lock().unwrap();
                    g.bytes_in += body.len() as u64;
                    scan_secrets(&mut g, &body);
                    handle(&mut g, &cmd)
                };
                let mut out = Vec::new();
                let mut rb = Vec::new();
                reply.to_writer(&mut rb).map_err(|e| std::io::Error::new(std::io::ErrorKind::InvalidData, e))?;
                let total = 16 + 4 + 1 + rb.len();
                out.extend((total as i32).to_le_bytes());
                out.extend(0i32.to_le_bytes());
                out.extend(request_id.to_le_bytes());
                out.extend(2013i32.to_le_bytes());
                out.extend(0u32.to_le_bytes());
                out.push(0);
                out.extend(rb);
                s.write_all(&out)?;
            }
            2004 => {
                // legacy OP_QUERY (handshake only)
                let mut p = 4;
                let z = body[p..].iter().position(|b| *b == 0).unwrap_or(0);
                p += z + 1 + 8;
                let l = i32_at(&body, p) as usize;
                let cmd = Document::from_reader(&mut &body[p..p + l]).map_err(|e| std::io::Error::new(std::io::ErrorKind::InvalidData, e))?;
                let reply = {
                    let mut g = db.lock().unwrap();
                    handle(&mut g, &cmd)
                };
                let mut rb = Vec::new();
                reply.to_writer(&mut rb).map_err(|e| std::io::Error::new(std::io::ErrorKind::InvalidData, e))?;
                let total = 16 + 20 + rb.len();
                let mut out = Vec::new();
                out.extend((total as i32).to_le_bytes());
                out.extend(0i32.to_le_bytes());
                out.extend(request_id.to_le_bytes());
                out.extend(1i32.to_le_bytes());
                out.extend(0i32.to_le_bytes());
                out.extend(0i64.to_le_bytes());
                out.extend(0i32.to_le_bytes());
                out.extend(1i32.to_le_bytes());
                out.extend(rb);
                s.write_all(&out)?;
            }
            _ => return Ok(()),
        }
    }
}

fn scan_secrets(db: &mut Db, raw: &[u8]) {
    for sec in db.secrets.clone() {
        let b = sec.as_bytes();
        if !b.is_empty() && raw.windows(b.len()).any(|w| w == b) {
            db.leaks.push(format!("secret {:?} travelled to the database in command #{}", sec, db.seq + 1));
        }
    }
}

fn matches(d: &Document, filter: &Document) -> bool {
    filter.iter().all(|(k, v)| d.get(k) == Some(v))
}

fn set_path(d: &mut Document, path: &str, val: Bson) {
    match path.split_once('.') {
        None => {
            d.insert(path, val);
        }
        Some((head, rest)) => {
            if !matches!(d.get(head), Some(Bson::Document(_))) {
                d.insert(head, Bson::Document(Document::new()));
            }
            if let Some(Bson::Document(inner)) = d.get_mut(head) {
                set_path(inner, rest, val);
            }
        }
    }
}

fn str_of(d: &Document, k: &str) -> Option<String> {
    d.get_str(k).ok().map(|s| s.to_string())
}

fn handle(db: &mut Db, cmd: &Document) -> Document {
    let Some((name, first)) = cmd.iter().next() else {
        return doc! {"ok": 0.0, "errmsg": "empty command", "code": 59};
    };
    let lname = name.to_lowercase();
    db.seq += 1;
    *db.commands_by_kind.entry(lname.clone()).or_insert(0) += 1;
    let short = first.as_str().unwrap_or("").to_string();
    let dbname = cmd.get_str("$db").unwrap_or("test").to_string();
    // everything below works on the namespace, so a command aimed at another database cannot touch this one
    let coll = format!("{}.{}", dbname, short);
    let mut entry = LogEntry {
        seq: db.seq,
        cmd: lname.clone(),
        coll: coll.clone(),
        username: None,
        name: None,
    };
    let reply = match lname.as_str() {
        "ismaster" | "hello" => doc! {
            "ismaster": true, "isWritablePrimary": true, "helloOk": true,
            "maxBsonObjectSize": 16777216, "maxMessageSizeBytes": 48000000, "maxWriteBatchSize": 100000,
            "localTime": bson::DateTime::now(), "minWireVersion": 0, "maxWireVersion": 13, "readOnly": false, "ok": 1.0,
        },
        "ping" | "endsessions" | "killcursors" => doc! {"ok": 1.0},
        "buildinfo" => doc! {"version": "5.0.0", "ok": 1.0},
        "createindexes" => {
            if let Ok(ixs) = cmd.get_array("indexes") {
                for ix in ixs.iter().filter_map(|b| b.as_document()) {
                    let unique = ix.get_bool("unique").unwrap_or(false);
                    if let (true, Ok(key)) = (unique, ix.get_document("key")) {
                        if key.len() == 1 {
                            db.unique_indexes.insert((coll.clone(), key.keys().next().unwrap().clone()));
                        }
                    }
                }
            }
            doc! {"createdCollectionAutomatically": true, "numIndexesBefore": 1, "numIndexesAfter": 2, "ok": 1.0}
        }
        "find" => {
            let filter = cmd.get_document("filter").cloned().unwrap_or_default();
            entry.username = str_of(&filter, "username");
            entry.name = str_of(&filter, "name");
            let limit = cmd.get("limit").and_then(|l| l.as_i64().or_else(|| l.as_i32().map(|x| x as i64))).unwrap_or(0).unsigned_abs() as usize;
            let docs: Vec<Bson> = db
                .collections
                .get(&coll)
                .map(|c| c.iter().filter(|d| matches(d, &filter)).cloned().map(Bson::Document).collect())
                .unwrap_or_default();
            let docs: Vec<Bson> = if limit > 0 { docs.into_iter().take(limit).collect() } else { docs };
            doc! {"cursor": {"firstBatch": docs, "id": 0i64, "ns": coll.clone()}, "ok": 1.0}
        }
        "insert" => {
            let docs: Vec<Document> = cmd
                .get_array("documents")
                .map(|a| a.iter().filter_map(|b| b.as_document().cloned()).collect())
                .unwrap_or_default();
            let mut n = 0;
            let mut errors: Vec<Bson> = Vec::new();
            for (i, mut d) in docs.into_iter().enumerate() {
                entry.username = str_of(&d, "username");
                entry.name = str_of(&d, "name");
                if db.unique_indexes.contains(&(coll.clone(), "username".to_string())) {
                    let u = d.get("username").cloned();
                    if db.collections.get(&coll).map(|c| c.iter().any(|x| x.get("username") == u.as_ref())).unwrap_or(false) {
                        errors.push(Bson::Document(doc! {"index": i as i32, "code": 11000, "errmsg": "E11000 duplicate key error collection: adf-obdd.users index: username_1"}));
                        continue;
                    }
                }
                if !d.contains_key("_id") {
                    db.next_oid += 1;
                    d.insert("_id", Bson::Int64(db.next_oid as i64));
                }
                db.collections.entry(coll.clone()).or_default().push(d);
                n += 1;
            }
            if errors.is_empty() {
                doc! {"n": n, "ok": 1.0}
            } else {
                doc! {"n": n, "writeErrors": errors, "ok": 1.0}
            }
        }
        "update" => {
            let updates: Vec<Document> = cmd
                .get_array("updates")
                .map(|a| a.iter().filter_map(|b| b.as_document().cloned()).collect())
                .unwrap_or_default();
            let mut n = 0;
            let mut modified = 0;
            let mut errors: Vec<Bson> = Vec::new();
            for (i, u) in updates.iter().enumerate() {
                let q = u.get_document("q").cloned().unwrap_or_default();
                entry.username = str_of(&q, "username");
                entry.name = str_of(&q, "name");
                let multi = u.get_bool("multi").unwrap_or(false);
                let upd = u.get_document("u").cloned().unwrap_or_default();
                let is_ops = upd.keys().next().map(|k| k.starts_with('$')).unwrap_or(false);
                // unique index on users.username also guards replacements
                if db.unique_indexes.contains(&(coll.clone(), "username".to_string())) && !is_ops {
                    let newname = upd.get("username").cloned();
                    let c = db.collections.get(&coll).cloned().unwrap_or_default();
                    if c.iter().any(|x| !matches(x, &q) && x.get("username") == newname.as_ref()) && c.iter().any(|x| matches(x, &q)) {
                        errors.push(Bson::Document(doc! {"index": i as i32, "code": 11000, "errmsg": "E11000 duplicate key error collection: adf-obdd.users index: username_1"}));
                        continue;
                    }
                }
                if let Some(c) = db.collections.get_mut(&coll) {
                    for d in c.iter_mut().filter(|d| matches(d, &q)) {
                        n += 1;
                        let before = d.clone();
                        if is_ops {
                            if let Ok(set) = upd.get_document("$set") {
                                for (k, v) in set {
                                    set_path(d, k, v.clone());
                                }
                            }
                        } else {
                            let id = d.get("_id").cloned();
                            *d = upd.clone();
                            if let Some(id) = id {
                                d.insert("_id", id);
                            }
                        }
                        if *d != before {
                            modified += 1;
                        }
                        if !multi {
                            break;
                        }
                    }
                }
            }
            if errors.is_empty() {
                doc! {"n": n, "nModified": modified, "ok": 1.0}
            } else {
                doc! {"n": n, "nModified": modified, "writeErrors": errors, "ok": 1.0}
            }
        }
        "delete" => {
            let deletes: Vec<Document> = cmd
                .get_array("deletes")
                .map(|a| a.iter().filter_map(|b| b.as_document().cloned()).collect())
                .unwrap_or_default();
            let mut n = 0;
            for del in &deletes {
                let q = del.get_document("q").cloned().unwrap_or_default();
                entry.username = str_of(&q, "username");
                entry.name = str_of(&q, "name");
                let limit = del.get("limit").and_then(|l| l.as_i32().map(|x| x as i64).or_else(|| l.as_i64())).unwrap_or(0);
                if let Some(c) = db.collections.get_mut(&coll) {
                    let mut kept = Vec::new();
                    let mut removed = 0;
                    for d in c.drain(..) {
                        if matches(&d, &q) && (limit == 0 || removed < limit) {
                            removed += 1;
                        } else {
                            kept.push(d);
                        }
                    }
                    *c = kept;
                    n += removed;
                }
            }
            doc! {"n": n as i32, "ok": 1.0}
        }
        other => {
            db.unknown_commands.push(other.to_string());
            doc! {"ok": 0.0, "errmsg": format!("no such command: '{}'", other), "code": 59, "codeName": "CommandNotFound"}
        }
    };
    if db.log.len() < 200_000 {
        db.log.push(entry);
    }
    reply
}
