#!/bin/bash
# tools/process_seed.sh <worktree> <N> <Cnn>... : confirm a delivered mutation in its worktree, then run the checks on it
WT=$1; N=$2; shift 2
/verif/tools/confirm_seed.sh "$WT" "$N" 2>&1 | grep -E "CONFIRM|error" 
if [ -e "$WT/seed/demo$N/run.sh" ]; then
  ( cd "$WT" && git checkout -q -- . && git apply seed/mutation$N.diff && cargo build -p adf-bdd-bin --offline >/dev/null 2>&1; bash seed/demo$N/run.sh >/dev/null 2>&1; echo "CONFIRM-SH: demo_with_mutation_rc=$?"; git checkout -q -- . ; cargo build -p adf-bdd-bin --offline >/dev/null 2>&1; bash seed/demo$N/run.sh >/dev/null 2>&1; echo "CONFIRM-SH: demo_without_rc=$?" )
fi
/verif/tools/run_seed.sh "$WT/seed/mutation$N.diff" "$@" 2>&1 | grep -E "^\s+\S+: |VIOLATION|INCONCLUSIVE|SEED-RESULT" | cut -c1-260 | head -12
