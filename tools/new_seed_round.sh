#!/bin/sh
# tools/new_seed_round.sh <dir> <Cnn>... : one scratch worktree of /repo HEAD per property under <dir> (outside /repo and
# /verif) and the prompt for an independent sub-agent, which sees the property text only (nothing from /verif).
# Optional: <dir>/extra_<Cnn>.txt holds additional wishes for that property (e.g. mutation kinds already seen).
set -e
dir=$1; shift
mkdir -p "$dir"
for id in "$@"; do
  git -C /repo worktree add -q --detach "$dir/$id" HEAD
  python3 - "$dir" "$id" <<'PY'
import json, sys, os
d, pid = sys.argv[1:3]
for l in open('/verif/properties.jsonl'):
    p = json.loads(l)
    if p['id'] != pid:
        continue
    prop = "Property %s: %s\n\nStatement: %s\n\nQuantified over: %s\n\nWhy the existing tests cannot settle it: %s\n\nCode anchors (files): %s\n" % (
        p['id'], p['title'], p['statement'], p['quantifier']['text'], p['why_tests_cant'], ", ".join(p['anchors']['files']))
    extra = ''
    ex = os.path.join(d, 'extra_%s.txt' % pid)
    if os.path.exists(ex):
        extra = open(ex).read()
    t = open('/verif/tools/seed_prompt_template.txt').read()
    open(os.path.join(d, 'prompt_%s.txt' % pid), 'w').write(
        t.replace('__WT__', os.path.join(d, pid)).replace('__PROP__', prop).replace('__EXTRA__', extra))
PY
  echo "$id: $dir/$id, prompt $dir/prompt_$id.txt"
done
