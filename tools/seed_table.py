#!/usr/bin/env python3
"""markdown table of the kept seeded mutations (from seeded/*/meta.json)"""
import json, glob, os
rows = []
for d in sorted(glob.glob('/verif/seeded/*/')):
    m = json.load(open(os.path.join(d, 'meta.json')))
    rows.append(m)
print("| seed | files changed | needs to manifest | detected by |")
print("|---|---|---|---|")
for m in rows:
    print("| %s | %s | %s | %s |" % (m['seed_id'], ", ".join(f.replace('lib/src/', '').replace('server/src/', 'server:').replace('bin/src/', 'bin:') for f in m['files_changed']),
                                   m['needs_to_manifest'].replace('|', '/'), m['detected_by'].replace('|', '/')))
