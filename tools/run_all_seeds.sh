#!/bin/bash
# mutation drill: every kept seed against the quick check(s) named in its meta.json; prints one line per seed
cd /verif
for d in seeded/*/; do
  id=$(basename $d)
  prop=$(python3 -c "import json;print(json.load(open('$d/meta.json'))['property'])")
  checks=$(python3 -c "
import json
m=json.load(open('$d/meta.json'))
print(' '.join(m.get('drill_checks',[m['property']])))")
  res=""
  for c in $checks; do
    out=$(tools/run_seed.sh /verif/$d/patch.diff $c 2>&1 | grep SEED-RESULT)
    rc=$(echo "$out" | sed -n 's/.*exit=\([0-9]*\).*/\1/p')
    res="$res $c:exit=$rc"
  done
  echo "DRILL $id$res"
done
