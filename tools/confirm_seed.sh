#!/bin/bash
# confirm a sub-agent's mutation in its scratch worktree:
#   tools/confirm_seed.sh <worktree> <N>
# 1. the existing tests pass with the mutation, 2. the demo fails with it, 3. the demo passes without it
set -u
WT=$1; N=$2
cd "$WT" || exit 2
git checkout -q -- . ; rm -f lib/tests/seed_demo_*.rs
git apply seed/mutation$N.diff || { echo "CONFIRM: patch does not apply"; exit 2; }
echo "== existing tests with the mutation"
if [[ $(grep -c '^+++ b/server' seed/mutation$N.diff) -gt 0 ]]; then
  cargo build -p adf-bdd-server --offline 2>&1 | grep -E "^error|Finished" | head -3
fi
cargo test -p adf_bdd -p adf-bdd-bin --offline 2>&1 | grep -E "^test result|FAILED|failed" > /tmp/confirm_tests.txt
cat /tmp/confirm_tests.txt
if grep -qE "FAILED|[1-9][0-9]* failed" /tmp/confirm_tests.txt; then echo "CONFIRM: existing tests FAIL with the mutation"; TESTS=fail; else TESTS=pass; fi
run_demo() {
  local rc=0
  for f in seed/demo$N/*.rs; do
    [ -e "$f" ] || continue
    stem=seed_demo_$(basename "$f" .rs)
    if grep -q 'path = "../src/' "$f"; then
      # a test of the server crate (pulls the server modules in by path)
      mkdir -p server/tests; cp "$f" server/tests/$stem.rs
      cargo test -p adf-bdd-server --offline --test $stem 2>&1 | grep -E "^test result|error(\[|:)" | head -3
      cargo test -p adf-bdd-server --offline --test $stem >/dev/null 2>&1 || rc=1
      rm -rf server/tests
      continue
    fi
    cp "$f" lib/tests/$stem.rs
    cargo test -p adf_bdd --offline ${DEMO_ARGS:-} --test $stem 2>&1 | grep -E "^test result|error(\[|:)" | head -3
    cargo test -p adf_bdd --offline ${DEMO_ARGS:-} --test $stem >/dev/null 2>&1 || rc=1
    rm -f lib/tests/$stem.rs
  done
  return $rc
}
echo "== demo with the mutation (must fail)"
run_demo; WITH=$?
git checkout -q -- .
echo "== demo without the mutation (must pass)"
run_demo; WITHOUT=$?
echo "CONFIRM: tests_with_mutation=$TESTS demo_with_mutation_rc=$WITH demo_without_rc=$WITHOUT"
