#!/usr/bin/env python3
"""keep a confirmed seeded mutation: tools/keep_seed.py <worktree> <N> <seed-id> <property> <detected-by text> [<needs text>]"""
import json, os, shutil, sys, glob
wt, n, sid, prop, detected = sys.argv[1:6]
needs = sys.argv[6] if len(sys.argv) > 6 else ""
dst = os.path.join('/verif/seeded', sid)
os.makedirs(dst, exist_ok=True)
shutil.copy(os.path.join(wt, 'seed', 'mutation%s.diff' % n), os.path.join(dst, 'patch.diff'))
demo = os.path.join(wt, 'seed', 'demo%s' % n)
if os.path.isdir(demo):
    shutil.copytree(demo, os.path.join(dst, 'demo'), dirs_exist_ok=True)
notes = os.path.join(wt, 'seed', 'notes%s.md' % n)
if os.path.exists(notes):
    shutil.copy(notes, os.path.join(dst, 'notes.md'))
files = sorted(set(l[6:].strip() for l in open(os.path.join(dst, 'patch.diff')) if l.startswith('+++ b/')))
meta = {
    "seed_id": sid,
    "property": prop,
    "files_changed": files,
    "needs_to_manifest": needs,
    "confirmed": {
        "how": "tools/confirm_seed.sh %s %s (in a scratch worktree of /repo HEAD)" % (wt, n),
        "existing_tests_pass_with_mutation": True,
        "demo_fails_with_mutation": True,
        "demo_passes_without_mutation": True,
    },
    "detected_by": detected,
    "ran": "tools/run_seed.sh seeded/%s/patch.diff %s (git -C /repo apply; ./check; git -C /repo checkout -- .)" % (sid, prop),
}
json.dump(meta, open(os.path.join(dst, 'meta.json'), 'w'), indent=1)
print("kept", dst)
