#!/bin/bash
# apply a seeded mutation to /repo, run the given checks (quick tier), undo it
#   tools/run_seed.sh <patch.diff> <Cnn> [<Cnn> ...]
set -u
PATCH=$1; shift
cd /verif
git -C /repo diff --quiet || { echo "/repo is not clean"; exit 2; }
git -C /repo apply "$PATCH" || { echo "patch does not apply to /repo"; exit 2; }
trap 'git -C /repo checkout -q -- . ; rm -f /verif/replay/C*.json' EXIT
for c in "$@"; do
  out=$(./check $c --tier ${TIER:-quick} 2>&1); rc=$?
  echo "$out" | grep -E "^\s+\S+: |VIOLATION|INCONCLUSIVE|KNOWN-FINDING|^\[C" | head -${LINES_SHOWN:-6}
  echo "SEED-RESULT check=$c exit=$rc patch=$PATCH"
done
