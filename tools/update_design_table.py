#!/usr/bin/env python3
"""replace the seed table in DESIGN.md §9.2 by the current output of tools/seed_table.py"""
import subprocess
p = '/verif/DESIGN.md'
s = open(p).read()
start = s.index('| seed | files changed | needs to manifest | detected by |')
end = s.index('`tools/run_seed.sh seeded/<id>/patch.diff <Cnn>` re-runs one seed')
table = subprocess.run(['/verif/tools/seed_table.py'], stdout=subprocess.PIPE, text=True).stdout
open(p, 'w').write(s[:start] + table + '\n' + s[end:])
print("rows:", table.count('\n') - 2)
